"""C15 - no hidden mutation: functions leave their inputs alone, accessors leave their receiver alone,
deep copies are independent in both directions.

Three transition systems, all explored exhaustively over explicitly listed finite spaces:

  func      every name of deepali.core.functional.__all__ and deepali.losses.functional.__all__ (by
            introspection) x call variants (incl. no-op forms: levels=0, margin=0, steps=0, same dtype ...)
            x aliasing form of ALL tensor arguments (contiguous / interior view of a larger base / reversed
            memory order / stride-0 expansion) x D in {2, 3}.
            Oracle: for every tensor argument: own bytes, bytes of the WHOLE storage it lives in and
            `Tensor._version` are identical before and after the call, also when the call raises.
            Grid arguments: deep fingerprint unchanged.
  accessor  receivers Grid, Cube, Image, ImageBatch, FlowField, FlowFields and 15 transform classes with
            parameter kinds {Parameter, buffer, callable} in pre-states {fresh, updated} x every
            "returns a new object" accessor form (center/origin/spacing/direction/align_corners/resize ... pool,
            grid(g), axes(a), data(p), condition(...), inverse(), inv, link(o), unlink(), matrix(m), copy,
            deepcopy, pickle).  Oracle: deep fingerprint of the receiver (slots / __dict__, identity AND values
            AND version of parameters and buffers, container keys, grid, conditioning) unchanged; tensor arguments
            unchanged; for transforms additionally the receiver then maps probe points exactly like an untouched
            twin built from the same description.
  history   state = list of objects (original + copies); alphabet = make-copy {copy.copy, copy.deepcopy,
            pickle round trip, clone, accessor} from {first, last} object, mutate {in-place setters, in-place tensor
            edits of data / parameters / buffers / grid attributes} of {first, last} object; all sequences up to the
            tier depth.  Invariants in every reached state: making a copy changes no existing object; a mutation
            changes no object that is separated from the mutated one by a deep copy (both directions).
            Objects related only by shallow copies share tensors by design: not judged.

An exception is never a C15 violation by itself (the inputs are still compared afterwards).
"""
from __future__ import annotations

import copy
import pickle

import numpy as np
import torch
from torch import Tensor

from mc.core import Acc, exc_text, guarded, h64
from ref import c15_recipes as R
from ref import mutfp

# every shard runs in a freshly forked process: load the heavy modules once in the parent, not once per shard
import deepali.core.functional  # noqa: F401,E402
import deepali.data  # noqa: F401,E402
import deepali.losses.functional  # noqa: F401,E402
import deepali.spatial  # noqa: F401,E402

PROPERTY = "C15"
RULE = (
    "func: every (function, call variant, aliasing form, D) of the two public functional namespaces; accessor: every "
    "(receiver description, accessor form); history: every sequence of copy / mutate operations up to the tier depth per "
    "object description. distinct = hash of (case, result summary / value fingerprint of all objects); non-trivial = the "
    "call returned normally and had at least one watched tensor argument (func), the accessor returned a new object "
    "(accessor), the history contains a copy and a later mutation that actually changed the mutated object (history). "
    "eval: every (transform description, evaluation method), executed twice. chain: every derivation chain of length <= 3 "
    "(inverse / inverse(link) / inv / link(partner with parameters | parameter-less partner) / unlink / copy / condition / "
    "data / grid applied to the LAST derived object, update() of the last object in between) from every transform with "
    "NON-ZERO parameters of kind Parameter / buffer / callable, fresh and updated; after every step the fingerprint (bitwise "
    "values, identity, _version) of EVERY earlier live object is compared; non-trivial = the chain has >= 3 live objects. "
    "layout: the first 2 call variants of every function x {transposed view, step-sliced view, stride-0 expanded batch} of ALL "
    "tensor arguments: no exception where the contiguous form returns, same result, arguments unchanged (bits, strides, _version)"
)
EXPLANATION = "before/after comparison of every argument and receiver over the whole API surface and over bounded copy/mutate histories"
ASSUMPTIONS = [
    "CPU tensors; representative argument values per function (the check decides mutation, not numerical correctness)",
    "observation through __slots__, __dict__, torch.nn.Module containers, Tensor._version and untyped_storage() only",
    "explicit in-place variants (inplace=True, out=, trailing underscore) are excluded from the func and accessor menus",
    "lazy evaluation methods of transforms (tensor(), disp(), __call__, update()) may register buffers by design and are not accessors",
    "objects related only by shallow copies share tensors by design; only deep-copy independence is judged in histories",
    "layout: floating results are compared with |a-b| <= 64 eps32 x 16 x max(1, |ref|max) (another kernel / summation order is "
    "legitimate for another memory layout), integer / bool results exactly; random draws (multinomial, rand_sample) by shape only",
    "derivation chains: a non-underscore accessor must leave its receiver AND every ancestor the receiver was derived from untouched",
    "states that contain uninitialised memory by construction (never-updated callable parameters, link to a parameter-less partner, "
    "unlink) are hashed by structure only; before/after comparisons inside one process are exact",
]
MIN_NONTRIVIAL = {"quick": 40000, "thorough": 150000}  # measured quick 87679
MIN_OUTCOMES = {"quick": 55000, "thorough": 300000}  # measured quick 110956
MIN_SUB_TRACES = {"func": 4000, "accessor": 2000, "history": 12000, "eval": 1900, "chain": 35000, "layout": 400}  # measured (quick) 6268 / 4230 / 25756 / 3800 / 70902


# ---------------------------------------------------------------------------
# helpers
def watch_snapshot(m: R.Maker):
    snap = []
    for name, t in m.watch:
        snap.append((name, mutfp.tensor_fp(t, ident=False, version=True), mutfp.storage_fp(t)))
    objs = [(name, mutfp.fp(o)) for name, o in m.objs]
    return snap, objs


def compare_watch(before, after):
    """-> list of (argname, problem, detail)"""
    out = []
    (tb, ob), (ta, oa) = before, after
    for (name, fb, sb), (_, fa, sa) in zip(tb, ta):
        vb = [x for x in fb if not (isinstance(x, tuple) and x and x[0] == "ver")]
        va = [x for x in fa if not (isinstance(x, tuple) and x and x[0] == "ver")]
        if vb != va:
            out.append((name, "mutated", f"argument tensor '{name}' changed: " + "; ".join(mutfp.diff(tuple(vb), tuple(va)))))
        elif sb != sa:
            out.append((name, "storage-mutated", f"storage of argument '{name}' changed outside the view"))
        elif fb != fa:
            out.append((name, "version-bumped", f"argument tensor '{name}' was written in place (same values, _version changed)"))
    for (name, fb), (_, fa) in zip(ob, oa):
        if fb != fa:
            out.append((name, "mutated", f"argument object '{name}' changed: " + "; ".join(mutfp.diff(fb, fa))))
    return out


def summarize(res):
    """Small deterministic description of a call result (for outcome hashing)."""
    if isinstance(res, Tensor):
        return ("T", type(res).__name__, str(res.dtype), tuple(res.shape))
    if isinstance(res, (tuple, list)):
        return (type(res).__name__,) + tuple(summarize(r) for r in list(res)[:6])
    if isinstance(res, dict):
        return ("dict", tuple(sorted(str(k) for k in res))[:12])
    if res is None or isinstance(res, (bool, int, float, str)):
        return ("v", repr(res)[:40])
    return ("o", type(res).__name__)


# ===========================================================================
# sub-check 1: func
def func_cases(tier):
    out = []
    for mod, name in R.surface():
        for D in (2, 3):
            out.append((mod, name, D))
    return out


def uncovered_api():
    return [f"{mod}.{name}" for mod, name in R.surface() if R.recipe_for(mod, name) is None]


def func_variants(mod, name, D):
    r = R.recipe_for(mod, name)
    if r is None:
        return []
    st, v = guarded(r, R.Maker(D, "contig"), name=name)
    if st == "raises":
        return []
    return [lab for lab, _ in v]


def run_func_call(mod, name, D, form, label):
    """-> (status, problems, obs) ; status: ok | raises | norecipe"""
    r = R.recipe_for(mod, name)
    m = R.Maker(D, form)
    st, variants = guarded(r, m, name=name)
    if st == "raises":
        return "recipe-raises", [], ("recipe-raises", type(variants).__name__)
    thunk = dict(variants).get(label)
    if thunk is None:
        return "norecipe", [], ("missing",)
    before = watch_snapshot(m)
    st, res = guarded(thunk)
    after = watch_snapshot(m)
    problems = compare_watch(before, after)
    nwatch = len(m.watch)
    if st == "raises":
        return "raises", problems, ("raises", type(res).__name__, nwatch)
    return "ok", problems, ("ok", summarize(res), nwatch)


def func_sig(mod, name, label, form, arg, problem):
    return f"C15/func/{mod}.{name}/{label}/form={form}/arg={arg}/{problem}"


def run_func_shard(acc: Acc, shard):
    mod, name, D = shard["mod"], shard["name"], shard["D"]
    labels = func_variants(mod, name, D)
    if R.recipe_for(mod, name) is None:
        acc.undef("uncovered-api:" + mod + "." + name)
        return
    if not labels:
        acc.undef(f"no-variant-for-D={D}")
        return
    for label in labels:
        for form in R.FORMS:
            status, problems, obs = run_func_call(mod, name, D, form, label)
            acc.trans()
            acc.trace("func", depth=1)
            acc.state("func", mod, name, label, form, D)
            acc.outcome("func", mod, name, label, form, D, obs)
            case = {"sub": "func", "mod": mod, "name": name, "D": D, "form": form, "label": label}
            for arg, problem, detail in problems:
                acc.violation(func_sig(mod, name, label, form, arg, problem), case, detail, size=1)
            if status == "ok" and obs[-1] > 0:
                acc.nontriv("func", mod, name, label, form, D)
                acc.info["func_calls_returned"] = acc.info.get("func_calls_returned", 0) + 1
            elif status == "raises":
                acc.undef(f"func-call-raises:{obs[1]}")
            if len(acc.samples) < 1 and status == "ok":
                acc.sample({"sub": "func", "call": f"{mod}.{name}[{label}]", "D": D, "form": form, "result": repr(obs)[:200]})


# ===========================================================================
# objects
class ConstParams(torch.nn.Module):
    """Callable parameter source: returns a fresh tensor computed from its own weight."""

    def __init__(self, values: Tensor):
        super().__init__()
        self.w = torch.nn.Parameter(values.clone())

    def forward(self, *args, **kwargs):
        return self.w * 1.0


LINEAR = ("Translation", "EulerRotation", "QuaternionRotation", "IsotropicScaling", "AnisotropicScaling", "Shearing", "HomogeneousTransform")
NONRIGID = ("DisplacementFieldTransform", "StationaryVelocityFieldTransform", "FreeFormDeformation", "StationaryVelocityFreeFormDeformation")
COMPOSITE = ("RigidTransform", "AffineTransform", "SequentialTransform", "MultiLevelTransform")
# all-linear composites whose FIRST member is a HomogeneousTransform with parameters of the given kind (evaluation sub-check)
LINCOMP = ("MultiLevel(Homogeneous,Translation)", "MultiLevel(Homogeneous,EulerRotation,Translation)",
           "Sequential(Homogeneous,Translation)", "Sequential(Homogeneous,EulerRotation,Translation)")
IMAGES = ("Image", "ImageBatch", "FlowField", "FlowFields")
NBATCH = 3


def shape_of(D):
    return (6, 7) if D == 2 else (4, 5, 6)


def make_grid(D, variant="base", ac=True, shape=None):
    from deepali.core.grid import Grid

    S = shape_of(D) if shape is None else shape
    size = tuple(reversed(S))
    if variant == "base":
        sp, org = (0.5, 1.25, 2.0)[:D], (10.5, -3.25, 100.0)[:D]
        direction = None
        if D == 2:
            c, s = np.cos(0.4), np.sin(0.4)
            direction = ((c, -s), (s, c))
        else:
            direction = ((0.0, 1.0, 0.0), (-1.0, 0.0, 0.0), (0.0, 0.0, 1.0))
    elif variant == "other":
        sp, org, direction = (1.5, 0.75, 1.0)[:D], (-4.0, 2.5, 7.0)[:D], None
    elif variant == "third":
        sp, org, direction = (2.0, 2.0, 0.5)[:D], (1.0, 1.0, 1.0)[:D], None
    else:
        raise KeyError(variant)
    kw = dict(size=size, spacing=sp, origin=org, align_corners=ac)
    if direction is not None:
        kw["direction"] = direction
    return Grid(**kw)


def make_params(cls, t, k=3):
    """Deterministic non-trivial parameter values of the right shape for transform t."""
    shape = (1,) + tuple(t.data_shape)
    if cls == "QuaternionRotation":
        return torch.tensor([[0.9, 0.1, -0.2, 0.3]]) / torch.tensor([0.9, 0.1, -0.2, 0.3]).norm()
    if cls == "HomogeneousTransform":
        D = shape[1]
        return (torch.eye(D, D + 1) + R.vals((D, D + 1), k, -0.1, 0.1)).unsqueeze(0)
    if cls in ("IsotropicScaling", "AnisotropicScaling"):
        return R.vals(shape, k, 0.8, 1.2)
    return R.vals(shape, k, -0.1, 0.1)


def build(spec):
    """Fresh real object from a plain description."""
    typ, D = spec["type"], spec["D"]
    if typ == "Grid":
        return make_grid(D, spec.get("variant", "base"), spec.get("ac", True))
    if typ == "Cube":
        return make_grid(D, spec.get("variant", "base"), spec.get("ac", True)).cube()
    if typ in IMAGES:
        from deepali.core.grid import Axes
        from deepali.data import FlowField, FlowFields, Image, ImageBatch

        S = shape_of(D)
        # batches: NBATCH items, every item with its OWN, different Grid object
        grids = [make_grid(D, "base"), make_grid(D, "other", ac=False), make_grid(D, "third")]
        if typ == "ImageBatch":
            return ImageBatch(R.vals((NBATCH, 2) + S, 1), grids)
        if typ == "Image":
            return Image(R.vals((2,) + S, 1), grids[0])
        if typ == "FlowFields":
            return FlowFields(R.vals((NBATCH, D) + S, 2, -0.1, 0.1), grids, Axes.WORLD)
        return FlowField(R.vals((D,) + S, 2, -0.1, 0.1), grids[0], Axes.GRID)
    return build_transform(spec)


def build_transform(spec):
    import deepali.spatial as sp

    cls, D, pkind = spec["type"], spec["D"], spec.get("params", "parameter")
    grid = make_grid(D, "base")
    kw = {}
    if cls in ("FreeFormDeformation", "StationaryVelocityFreeFormDeformation"):
        kw["stride"] = 2
    if cls in LINCOMP:
        H = sp.HomogeneousTransform
        hv = make_params("HomogeneousTransform", H(grid, params=False))
        first = H(grid, params={"parameter": torch.nn.Parameter(hv), "buffer": hv, "callable": ConstParams(hv)}[pkind])
        rest = []
        for i, name in enumerate(cls[cls.index("(") + 1 : -1].split(",")[1:]):
            C = getattr(sp, name)
            rest.append(C(grid, params=make_params(name, C(grid, params=False), 5 + i)))
        t = (sp.MultiLevelTransform if cls.startswith("MultiLevel") else sp.SequentialTransform)(first, *rest)
    elif cls in COMPOSITE:
        if cls == "SequentialTransform":
            t = sp.SequentialTransform(sp.Translation(grid), sp.DisplacementFieldTransform(grid))
        elif cls == "MultiLevelTransform":
            t = sp.MultiLevelTransform(sp.FreeFormDeformation(grid, stride=2), sp.DisplacementFieldTransform(grid))
        else:
            t = getattr(sp, cls)(grid)
        with torch.no_grad():
            for i, p in enumerate(t.parameters()):
                p.add_(R.vals(tuple(p.shape), 3 + i, -0.05, 0.05))
    else:
        C = getattr(sp, cls)
        proto = C(grid, params=False, **kw)
        values = make_params(cls, proto)
        if pkind == "parameter":
            t = C(grid, params=torch.nn.Parameter(values), **kw)
        elif pkind == "buffer":
            t = C(grid, params=values, **kw)
        elif pkind == "callable":
            t = C(grid, params=ConstParams(values), **kw)
        elif pkind == "none":
            return C(grid, params=None, **kw)  # parameter-less partner for link()
        else:
            raise KeyError(pkind)
    if spec.get("pre") == "updated":
        t.update()
    return t


def probe_points(D):
    return R.vals((1, 5, D), 5, -0.8, 0.8)


def behaviour(t, D):
    """What the transform does to probe points (bytes), or the exception type."""
    st, y = guarded(lambda: t(probe_points(D)))
    if st == "raises":
        return ("raises", type(y).__name__)
    return ("ok", mutfp.tensor_fp(y.detach(), ident=False, version=False))


def transform_specs(tier):
    specs = []
    for D in (2, 3):
        for cls in LINEAR + NONRIGID:
            if cls == "QuaternionRotation" and D == 2:
                continue
            for pk in ("parameter", "buffer", "callable"):
                for pre in ("fresh", "updated"):
                    specs.append({"type": cls, "D": D, "params": pk, "pre": pre})
        for cls in COMPOSITE:
            for pre in ("fresh", "updated"):
                specs.append({"type": cls, "D": D, "params": "parameter", "pre": pre})
    return specs


def value_specs(tier):
    specs = []
    for D in (2, 3):
        specs.append({"type": "Grid", "D": D})
        specs.append({"type": "Grid", "D": D, "ac": False})
        specs.append({"type": "Cube", "D": D})
        for typ in IMAGES:
            specs.append({"type": typ, "D": D})
    return specs


# ---------------------------------------------------------------------------
# accessor menus: name -> fn(obj, ctx) ; ctx.t(name, values) registers a watched tensor argument
class Ctx:
    def __init__(self, spec, form="contig"):
        self.spec = spec
        self.D = spec["D"]
        self.m = R.Maker(self.D, form)

        self.created = []

    def t(self, name, values):
        t = self.m.t(name, values)
        self.created.append((name, t, mutfp.tensor_fp(t, ident=False, version=True), mutfp.storage_fp(t)))
        return t

    def arg_problems(self):
        out = []
        for name, t, f0, s0 in self.created:
            f1, s1 = mutfp.tensor_fp(t, ident=False, version=True), mutfp.storage_fp(t)
            v0 = [x for x in f0 if not (isinstance(x, tuple) and x and x[0] == "ver")]
            v1 = [x for x in f1 if not (isinstance(x, tuple) and x and x[0] == "ver")]
            if v0 != v1 or s0 != s1:
                out.append((f"arg={name}-mutated", f"argument tensor '{name}' changed: " + "; ".join(mutfp.diff(tuple(v0), tuple(v1)))))
            elif f0 != f1:
                out.append((f"arg={name}-version-bumped", f"argument tensor '{name}' was written in place (same values, _version changed)"))
        return out


def _vecD(D, k=2, lo=-3.0, hi=3.0):
    return R.vals((D,), k, lo, hi)


def grid_menu(D):
    S = shape_of(D)
    size = tuple(reversed(S))
    other = tuple(s + 2 for s in size)
    rot = ((0.0, -1.0), (1.0, 0.0)) if D == 2 else ((0.0, -1.0, 0.0), (1.0, 0.0, 0.0), (0.0, 0.0, 1.0))
    M = {
        "center(tuple)": lambda g, c: g.center(tuple(_vecD(D).tolist())),
        "center(tensor)": lambda g, c: g.center(c.t("arg", _vecD(D))),
        "center(*floats)": lambda g, c: g.center(*_vecD(D).tolist()),
        "center(scalar)": lambda g, c: g.center(1.5),
        "origin(tuple)": lambda g, c: g.origin(tuple(_vecD(D, 3).tolist())),
        "origin(tensor)": lambda g, c: g.origin(c.t("arg", _vecD(D, 3))),
        "spacing(tuple)": lambda g, c: g.spacing(tuple(_vecD(D, 4, 0.5, 2.0).tolist())),
        "spacing(scalar)": lambda g, c: g.spacing(0.75),
        "spacing(tensor)": lambda g, c: g.spacing(c.t("arg", _vecD(D, 4, 0.5, 2.0))),
        "direction(tuple)": lambda g, c: g.direction(rot),
        "direction(tensor)": lambda g, c: g.direction(c.t("arg", torch.tensor(rot))),
        "align_corners(True)": lambda g, c: g.align_corners(True),
        "align_corners(False)": lambda g, c: g.align_corners(False),
        "resize(size)": lambda g, c: g.resize(other),
        "resize(same)": lambda g, c: g.resize(size),
        "resize(size,ac=False)": lambda g, c: g.resize(other, align_corners=False),
        "resize(tensor)": lambda g, c: g.resize(c.t("arg", torch.tensor(other))),
        "reshape(shape)": lambda g, c: g.reshape(tuple(reversed(other))),
        "resample(0.75)": lambda g, c: g.resample(0.75),
        "resample(min)": lambda g, c: g.resample("min"),
        "resample(tensor)": lambda g, c: g.resample(c.t("arg", _vecD(D, 4, 0.5, 2.0))),
        "resample(own-spacing)": lambda g, c: g.resample(g.spacing()),
        "downsample(1)": lambda g, c: g.downsample(1),
        "downsample(0)": lambda g, c: g.downsample(0),
        "downsample(-1)": lambda g, c: g.downsample(-1),
        "upsample(1)": lambda g, c: g.upsample(1),
        "upsample(0)": lambda g, c: g.upsample(0),
        "pyramid(2)": lambda g, c: g.pyramid(2),
        "crop(1)": lambda g, c: g.crop(1),
        "crop(0)": lambda g, c: g.crop(0),
        "crop(num)": lambda g, c: g.crop(num=[1, 0, 2, 1, 0, 1][: 2 * D]),
        "pad(1)": lambda g, c: g.pad(1),
        "pad(0)": lambda g, c: g.pad(0),
        "pad(margin)": lambda g, c: g.pad(margin=(1, 2, 0)[:D]),
        "narrow(0,1,3)": lambda g, c: g.narrow(0, 1, 3),
        "region_of_interest": lambda g, c: g.region_of_interest((1,) * D, (3,) * D),
        "center_crop(4)": lambda g, c: g.center_crop(4),
        "center_pad(9)": lambda g, c: g.center_pad(9),
        "pool(2)": lambda g, c: g.pool(2),
        "avg_pool(2)": lambda g, c: g.avg_pool(2),
        "cube()": lambda g, c: g.cube(),
        "domain()": lambda g, c: g.domain(),
        "cube().grid(size)": lambda g, c: g.cube().grid(size=other),
        "clone()": lambda g, c: g.clone(),
        "copy.copy": lambda g, c: copy.copy(g),
        "copy.deepcopy": lambda g, c: copy.deepcopy(g),
        "pickle": lambda g, c: pickle.loads(pickle.dumps(g)),
        "numpy()": lambda g, c: g.numpy(),
        "affine()": lambda g, c: g.affine(),
        "transform(cube,world)": lambda g, c: g.transform("cube", "world"),
        "coords()": lambda g, c: g.coords(),
        "points(world)": lambda g, c: g.points("world"),
        "index_to_world(tensor)": lambda g, c: g.index_to_world(c.t("points", R.vals((4, D), 2, 0, 4))),
        "world_to_cube(tensor)": lambda g, c: g.world_to_cube(c.t("points", R.vals((4, D), 2, 0, 4))),
        "transform_points(tensor)": lambda g, c: g.transform_points(c.t("points", R.vals((2, 4, D), 2, -1, 1)), axes="cube", to_axes="grid"),
        "transform_vectors(tensor)": lambda g, c: g.transform_vectors(c.t("vectors", R.vals((2, 4, D), 2, -1, 1)), axes="cube", to_axes="world"),
        "apply_transform(tensor)": lambda g, c: g.apply_transform(c.t("points", R.vals((2, 4, D), 2, -1, 1)), axes="grid", to_axes="grid"),
        "same_domain_as(other)": lambda g, c: g.same_domain_as(make_grid(D, "other")),
        "eq(clone)": lambda g, c: g == g.clone(),
    }
    return M


def cube_menu(D):
    size = tuple(reversed(shape_of(D)))
    rot = ((0.0, -1.0), (1.0, 0.0)) if D == 2 else ((0.0, -1.0, 0.0), (1.0, 0.0, 0.0), (0.0, 0.0, 1.0))
    return {
        "center(tuple)": lambda q, c: q.center(tuple(_vecD(D).tolist())),
        "center(tensor)": lambda q, c: q.center(c.t("arg", _vecD(D))),
        "origin(tuple)": lambda q, c: q.origin(tuple(_vecD(D, 3).tolist())),
        "origin(tensor)": lambda q, c: q.origin(c.t("arg", _vecD(D, 3))),
        "extent(tuple)": lambda q, c: q.extent(tuple(_vecD(D, 4, 1.0, 5.0).tolist())),
        "extent(tensor)": lambda q, c: q.extent(c.t("arg", _vecD(D, 4, 1.0, 5.0))),
        "extent(scalar)": lambda q, c: q.extent(3.0),
        "direction(tuple)": lambda q, c: q.direction(rot),
        "direction(tensor)": lambda q, c: q.direction(c.t("arg", torch.tensor(rot))),
        "grid(size)": lambda q, c: q.grid(size=size),
        "grid(size,ac=False)": lambda q, c: q.grid(size=size, align_corners=False),
        "spacing(size)": lambda q, c: q.spacing(size),
        "clone()": lambda q, c: q.clone(),
        "copy.copy": lambda q, c: copy.copy(q),
        "copy.deepcopy": lambda q, c: copy.deepcopy(q),
        "pickle": lambda q, c: pickle.loads(pickle.dumps(q)),
        "numpy()": lambda q, c: q.numpy(),
        "affine()": lambda q, c: q.affine(),
        "transform(cube,world)": lambda q, c: q.transform("cube", "world"),
        "cube_to_world(tensor)": lambda q, c: q.cube_to_world(c.t("points", R.vals((4, D), 2, -1, 1))),
        "world_to_cube(tensor)": lambda q, c: q.world_to_cube(c.t("points", R.vals((4, D), 2, -1, 1))),
        "transform_points(tensor)": lambda q, c: q.transform_points(c.t("points", R.vals((2, 4, D), 2, -1, 1)), axes="cube", to_axes="world"),
        "eq(clone)": lambda q, c: q == q.clone(),
    }


def image_menu(typ, D):
    from deepali.core.grid import Axes

    S = shape_of(D)
    size = tuple(reversed(S))
    other = tuple(s + 2 for s in size)
    batch = typ in ("ImageBatch", "FlowFields")

    def g2(x):
        return make_grid(D, "third")

    M = {
        "grid(other)": lambda x, c: x.grid(g2(x)),
        "grid(own)": lambda x, c: x.grid(x.grid()),
        "normalize()": lambda x, c: x.normalize(),
        "normalize(center)": lambda x, c: x.normalize("center"),
        "rescale(0,1)": lambda x, c: x.rescale(0, 1),
        "rescale(same-range)": lambda x, c: x.rescale(float(x.min()), float(x.max())),
        "narrow(spatial)": lambda x, c: x.narrow(x.ndim - 1, 1, 3),
        "narrow(full)": lambda x, c: x.narrow(x.ndim - 1, 0, x.shape[-1]),
        "resize(size)": lambda x, c: x.resize(other),
        "resize(same)": lambda x, c: x.resize(size),
        "resize(size,ac=True)": lambda x, c: x.resize(other, align_corners=True),
        "resize(size,ac=False)": lambda x, c: x.resize(other, align_corners=False),
        "resize(size,nearest)": lambda x, c: x.resize(other, mode="nearest"),
        "downsample(1,ac=True)": lambda x, c: x.downsample(1, align_corners=True),
        "downsample(1,ac=False)": lambda x, c: x.downsample(1, align_corners=False),
        "downsample(-1,ac=True)": lambda x, c: x.downsample(-1, align_corners=True),
        "downsample(-1,ac=False)": lambda x, c: x.downsample(-1, align_corners=False),
        "downsample(1,nearest)": lambda x, c: x.downsample(1, mode="nearest"),
        "upsample(1,ac=True)": lambda x, c: x.upsample(1, align_corners=True),
        "upsample(1,ac=False)": lambda x, c: x.upsample(1, align_corners=False),
        "upsample(-1,ac=True)": lambda x, c: x.upsample(-1, align_corners=True),
        "upsample(-1,ac=False)": lambda x, c: x.upsample(-1, align_corners=False),
        "upsample(1,nearest)": lambda x, c: x.upsample(1, mode="nearest"),
        "pyramid(2,ac=True)": lambda x, c: x.pyramid(2, align_corners=True),
        "pyramid(2,ac=False)": lambda x, c: x.pyramid(2, align_corners=False),
        "sample(other-grid,nearest)": lambda x, c: x.sample(g2(x), mode="nearest"),
        "resample(1.5)": lambda x, c: x[0:1].resample(1.5) if batch else x.resample(1.5),
        "avg_pool(2)": lambda x, c: x.avg_pool(2),
        "downsample(1)": lambda x, c: x.downsample(1),
        "downsample(0)": lambda x, c: x.downsample(0),
        "upsample(1)": lambda x, c: x.upsample(1),
        "upsample(0)": lambda x, c: x.upsample(0),
        "pyramid(2)": lambda x, c: x.pyramid(2),
        "crop(1)": lambda x, c: x.crop(1),
        "crop(0)": lambda x, c: x.crop(0),
        "pad(1)": lambda x, c: x.pad(1),
        "pad(0)": lambda x, c: x.pad(0),
        "center_crop(4)": lambda x, c: x.center_crop(4),
        "center_crop(big)": lambda x, c: x.center_crop(20),
        "center_pad(9)": lambda x, c: x.center_pad(9),
        "center_pad(small)": lambda x, c: x.center_pad(2),
        "region_of_interest": lambda x, c: x.region_of_interest((1,) * D, (3,) * D),
        "conv(kernel)": lambda x, c: x.conv(c.t("kernel", torch.tensor([0.25, 0.5, 0.25]))),
        "conv(delta)": lambda x, c: x.conv(c.t("kernel", torch.tensor([1.0]))),
        "sample(other-grid)": lambda x, c: x.sample(g2(x)),
        "sample(own-grid)": lambda x, c: x.sample(x.grids() if batch else x.grid()),
        "sample(coords)": lambda x, c: x.sample(c.t("coords", R.vals(((NBATCH,) if batch else ()) + S + (D,), 4, -0.9, 0.9))),
        "tensor()": lambda x, c: x.tensor(),
        "clone()": lambda x, c: x.clone(),
        "copy.copy": lambda x, c: copy.copy(x),
        "copy.deepcopy": lambda x, c: copy.deepcopy(x),
        "pickle": lambda x, c: pickle.loads(pickle.dumps(x)),
        "add(1)": lambda x, c: x + 1,
        "float()": lambda x, c: x.float(),
        "double()": lambda x, c: x.double(),
        "getitem(0)": lambda x, c: x[0],
        "getitem(ellipsis)": lambda x, c: x[...],
        "iter": lambda x, c: list(x),
        "detach()": lambda x, c: x.detach(),
    }
    if not batch:
        M["batch()"] = lambda x, c: x.batch()
    if typ in ("FlowField", "FlowFields"):
        for a in ("grid", "cube", "cube_corners", "world"):
            M[f"axes({a})"] = (lambda a: lambda x, c: x.axes(Axes(a)))(a)
        M["exp()"] = lambda x, c: x.exp()
        M["exp(steps=0)"] = lambda x, c: x.exp(steps=0)
        M["exp(scale=1,steps=1)"] = lambda x, c: x.exp(scale=1, steps=1)
        M["curl()"] = lambda x, c: x.curl()
        M["warp_image(self)"] = lambda x, c: x.warp_image(x)
    return M


def transform_menu(spec):
    D, cls = spec["D"], spec["type"]

    def pvals(t, k=7):
        if cls in COMPOSITE:
            return None
        return make_params(cls, t, k)

    def hom(t):
        return (torch.eye(D, D + 1) + R.vals((D, D + 1), 4, -0.05, 0.05)).unsqueeze(0)

    def rotm(t):
        if D == 2:
            c, s = np.cos(0.2), np.sin(0.2)
            m = torch.tensor([[c, -s, 0.0], [s, c, 0.0]], dtype=torch.float32)
        else:
            c, s = np.cos(0.2), np.sin(0.2)
            m = torch.tensor([[c, -s, 0.0, 0.0], [s, c, 0.0, 0.0], [0.0, 0.0, 1.0, 0.0]], dtype=torch.float32)
        return m.unsqueeze(0)

    M = {
        "grid(other)": lambda t, c: t.grid(make_grid(D, "other")),
        "grid(same-object)": lambda t, c: t.grid(t.grid()),
        "grid(equal-clone)": lambda t, c: t.grid(t.grid().clone()),
        "grid(other-ac)": lambda t, c: t.grid(t.grid().align_corners(not t.grid().align_corners())),
        "grid(resized)": lambda t, c: t.grid(t.grid().resize(tuple(s + 2 for s in t.grid().size()))),
        "condition(tensor)": lambda t, c: t.condition(c.t("cond", R.vals((1, 3), 2))),
        "condition(kw)": lambda t, c: t.condition(z=c.t("cond", R.vals((1, 3), 2))),
        "condition(both)": lambda t, c: t.condition(c.t("cond", R.vals((1, 3), 2)), flag=True),
        "inverse()": lambda t, c: t.inverse(),
        "inverse(link=True)": lambda t, c: t.inverse(link=True),
        "inverse(update_buffers=True)": lambda t, c: t.inverse(update_buffers=True),
        "inverse(link,update_buffers)": lambda t, c: t.inverse(link=True, update_buffers=True),
        "inv": lambda t, c: t.inv,
        "copy.copy": lambda t, c: copy.copy(t),
        "copy.deepcopy": lambda t, c: copy.deepcopy(t),
        "pickle": lambda t, c: pickle.loads(pickle.dumps(t)),
    }
    if cls not in COMPOSITE:
        M.update({
            "data(tensor)": lambda t, c: t.data(c.t("arg", pvals(t))),
            "data(Parameter)": lambda t, c: t.data(torch.nn.Parameter(pvals(t))),
            "data(own)": lambda t, c: t.data(t.data()),
            "data(N=2)": lambda t, c: t.data(c.t("arg", pvals(t).repeat((2,) + (1,) * (pvals(t).ndim - 1)))),
            "link(twin)": lambda t, c: t.link(build_transform(spec)),
            "link(empty)": lambda t, c: t.link(build_transform(dict(spec, params="none", pre="fresh"))),
            "link(twin-other-kind)": lambda t, c: t.link(build_transform(dict(spec, params="buffer" if spec.get("params") != "buffer" else "parameter"))),
            "unlink()": lambda t, c: t.unlink(),
        })
    if cls in LINEAR:
        M["matrix(homogeneous)"] = lambda t, c: t.matrix(c.t("arg", hom(t)))
        M["matrix(rotation)"] = lambda t, c: t.matrix(c.t("arg", rotm(t)))
    return M


EVAL_FREE = {"numpy()", "affine()", "transform(cube,world)", "coords()", "points(world)", "eq(clone)", "same_domain_as(other)", "tensor()", "spacing(size)"}


def menu_for(spec):
    M = _menu_for(spec)
    assert not any(" " in k for k in M), "signature parts must not contain spaces"
    return M


def _menu_for(spec):
    typ, D = spec["type"], spec["D"]
    if typ == "Grid":
        return grid_menu(D)
    if typ == "Cube":
        return cube_menu(D)
    if typ in IMAGES:
        return image_menu(typ, D)
    return transform_menu(spec)


def is_transform(spec):
    return spec["type"] in LINEAR + NONRIGID + COMPOSITE


def run_accessor(spec, name):
    """-> (status, problems [(problem, detail)], obs)"""
    fn = menu_for(spec).get(name)
    if fn is None:
        return "missing", [], ("missing",)
    st, obj = guarded(build, spec)
    if st == "raises":
        return "build-raises", [], ("build-raises", type(obj).__name__)
    ctx = Ctx(spec)
    before = mutfp.fp(obj)
    st, res = guarded(fn, obj, ctx)
    wb = None
    after = mutfp.fp(obj)
    problems = []
    if before != after:
        kinds = sorted(mutfp.kinds_of_change(before, after)) or ["structure"]
        problems.append(("receiver-" + "+".join(kinds), "receiver changed: " + "; ".join(mutfp.diff(before, after))))
    # tensor arguments (snapshot taken at creation inside the accessor: compare with their definition values)
    problems += ctx.arg_problems()
    if is_transform(spec) and not problems:
        st2, twin = guarded(build, spec)
        if st2 == "ok":
            b1, b2 = behaviour(obj, spec["D"]), behaviour(twin, spec["D"])
            if b1 != b2:
                problems.append(("behaviour-changed", f"after the accessor the receiver maps probe points differently from an untouched twin: {b1[0]} vs {b2[0]}"))
    if st == "raises":
        return "raises", problems, ("raises", type(res).__name__)
    return "ok", problems, ("ok", summarize(res), res is not obj)


def acc_sig(spec, name, problem):
    t = spec["type"]
    extra = ""
    if is_transform(spec):
        extra = f"[{spec.get('params', 'parameter')},{spec.get('pre', 'fresh')}]"
    return f"C15/accessor/{t}{extra}/{name}/{problem}"


def run_accessor_shard(acc: Acc, shard):
    spec = shard["spec"]
    for name in menu_for(spec):
        status, problems, obs = run_accessor(spec, name)
        acc.trans()
        acc.trace("accessor", depth=1)
        acc.state("accessor", spec, name)
        acc.outcome("accessor", spec, name, obs)
        case = {"sub": "accessor", "spec": spec, "name": name}
        for problem, detail in problems:
            acc.violation(acc_sig(spec, name, problem), case, detail, size=1)
        if status == "ok":
            if obs[-1]:
                acc.nontriv("accessor", spec, name)
        else:
            acc.undef(f"accessor-{status}:{obs[1] if len(obs) > 1 else ''}")
        if len(acc.samples) < 1 and status == "ok":
            acc.sample({"sub": "accessor", "receiver": spec, "accessor": name, "result": repr(obs)[:200]})


# ===========================================================================
# sub-check: evaluation leaves parameters, grid and conditioning alone, and is repeatable
EVALS = {
    "tensor()": lambda t, D: t.tensor(),
    "disp()": lambda t, D: t.disp(),
    "disp(other-grid)": lambda t, D: t.disp(make_grid(D, "other")),
    "disp(resized)": lambda t, D: t.disp(t.grid().resize(tuple(n + 2 for n in t.grid().size()))),
    "flow()": lambda t, D: t.flow().tensor(),
    "call(points)": lambda t, D: t(probe_points(D)),
    "call(grid-points)": lambda t, D: t(t.grid().coords().unsqueeze(0), grid=True),
    "points(world)": lambda t, D: t.points(probe_points(D), axes="world"),
    "matrix()": lambda t, D: t.matrix(),
    "update()": lambda t, D: t.update().tensor(),
}


def eval_specs(tier):
    specs = [dict(s) for s in transform_specs(tier)]
    for D in (2, 3):
        for cls in LINCOMP:
            for pk in ("parameter", "buffer", "callable"):
                for pre in ("fresh", "updated"):
                    specs.append({"type": cls, "D": D, "params": pk, "pre": pre})
    out = []
    for s in specs:
        for ng in (False, True):
            out.append(dict(s, no_grad=ng))
    return out


def param_fp(t):
    """Fingerprint restricted to what an evaluation must never touch: every nn.Parameter (identity, values, _version)
    of the transform and all members / parameter sources, every buffer called 'params', the grids and the conditioning."""
    parts = []
    seen = set()
    for mname, mod in t.named_modules():
        if id(mod) in seen:
            continue
        seen.add(id(mod))
        for pname, p in mod._parameters.items():
            parts.append((f"{mname}.{pname}", None if p is None else mutfp.tensor_fp(p)))
        b = mod._buffers.get("params")
        if b is not None:
            parts.append((f"{mname}.params(buffer)", mutfp.tensor_fp(b)))
        d = mod.__dict__
        if "_grid" in d:
            parts.append((f"{mname}._grid", mutfp.fp(d["_grid"])))
        if "_args" in d:
            parts.append((f"{mname}._args", mutfp.fp(d["_args"], ident=False)))
            parts.append((f"{mname}._kwargs", mutfp.fp(d.get("_kwargs"), ident=False)))
        if "invert" in d:
            parts.append((f"{mname}.invert", ("v", repr(d["invert"]))))
    return tuple(parts)


def results_defined(spec, name):
    """Whether the VALUE returned by an evaluation is defined by the documented contract.

    A transform whose parameters are predicted by a callable holds them in the buffer `p`, which is uninitialised memory
    (torch.empty) until update() ran; the docs require update() before tensor()/disp()/points() are used.  For the state
    (callable, fresh) only __call__ (runs update() through the pre-forward hook) and update() itself return defined values;
    for every other evaluation only "parameters / grid / conditioning unchanged" is judged, results are not compared."""
    if spec.get("params") == "callable" and spec.get("pre", "fresh") == "fresh":
        return name.startswith("call(") or name == "update()"
    return True


def run_eval(spec, name):
    """-> (status, problems, obs)"""
    import contextlib

    D = spec["D"]
    st, t = guarded(build, {k: v for k, v in spec.items() if k != "no_grad"})
    if st == "raises":
        return "build-raises", [], ("build-raises", type(t).__name__)
    fn = EVALS[name]
    ctx = torch.no_grad() if spec.get("no_grad") else contextlib.nullcontext()
    before = param_fp(t)
    with ctx:
        st1, r1 = guarded(fn, t, D)
    mid = param_fp(t)
    problems = []
    if before != mid:
        kinds = sorted(mutfp.kinds_of_change(before, mid)) or ["structure"]
        problems.append(("parameters-" + "+".join(kinds), "evaluation changed parameters / grid / conditioning: " + "; ".join(mutfp.diff(before, mid))))
    if st1 == "raises":
        return "raises", problems, ("raises", type(r1).__name__)
    with ctx:
        st2, r2 = guarded(fn, t, D)
    after = param_fp(t)
    if mid != after and not problems:
        kinds = sorted(mutfp.kinds_of_change(mid, after)) or ["structure"]
        problems.append(("parameters-" + "+".join(kinds) + "/second-call", "second evaluation changed parameters / grid / conditioning: " + "; ".join(mutfp.diff(mid, after))))
    if st2 == "raises":
        problems.append(("second-call-raises=" + type(r2).__name__, "the same evaluation raises when repeated: " + exc_text(r2)))
    elif not results_defined(spec, name):
        pass  # never-updated transform with predicted parameters: the buffer p is torch.empty() memory (see results_defined)
    elif isinstance(r1, Tensor) and isinstance(r2, Tensor):
        if r1.shape != r2.shape or not torch.equal(r1.detach(), r2.detach()):
            err = float((r1.detach().double() - r2.detach().double()).abs().max()) if r1.shape == r2.shape else float("nan")
            problems.append(("not-repeatable", f"the same evaluation of the unchanged transform gives another result the second time (max abs difference {err:.3g})"))
    return "ok", problems, ("ok", summarize(r1))


def eval_sig(spec, name, problem):
    ng = ",no_grad" if spec.get("no_grad") else ""
    return f"C15/eval/{spec['type']}[{spec.get('params', 'parameter')},{spec.get('pre', 'fresh')}{ng}]/{name}/{problem}"


def run_eval_shard(acc: Acc, shard):
    spec = shard["spec"]
    for name in EVALS:
        status, problems, obs = run_eval(spec, name)
        acc.trans(2 if status == "ok" else 1)
        acc.trace("eval", depth=2)
        acc.state("eval", spec, name)
        acc.outcome("eval", spec, name, obs)
        case = {"sub": "eval", "spec": spec, "name": name}
        for problem, detail in problems:
            acc.violation(eval_sig(spec, name, problem), case, detail, size=1)
        if status == "ok":
            acc.nontriv("eval", spec, name)
            if not results_defined(spec, name):
                acc.undef("eval-result-of-never-updated-callable-transform-not-compared")
        else:
            acc.undef(f"eval-{status}:{obs[1] if len(obs) > 1 else ''}")


# ===========================================================================
# sub-check 3: histories
def family(spec):
    t = spec["type"]
    if t in ("Grid", "Cube"):
        return t
    if t in IMAGES:
        return "image"
    return "transform"


def mk_ops(spec):
    fam = family(spec)
    ops = ["copy.copy", "copy.deepcopy", "pickle"]
    if fam in ("Grid", "Cube", "image"):
        ops.append("clone")
    if fam == "Grid":
        ops += ["acc:center(tuple)", "acc:spacing(scalar)", "acc:align_corners(False)", "acc:resize(same)"]
    elif fam == "Cube":
        ops += ["acc:center(tuple)", "acc:extent(scalar)"]
    elif fam == "image":
        ops += ["acc:grid(other)", "acc:getitem(ellipsis)", "acc:detach()"]
        if spec["type"] in ("FlowField", "FlowFields"):
            ops.append("acc:axes(cube)")
    else:
        ops += ["acc:grid(other)", "acc:condition(tensor)", "acc:inverse()", "acc:inverse(link=True)"]
        if spec["type"] not in COMPOSITE:
            ops += ["acc:data(tensor)", "acc:unlink()", "acc:link(twin)", "acc:link(empty)"]
    return ops


DEEP = {"copy.deepcopy", "pickle", "clone"}


def item_indices(spec):
    """Item indices whose grid is mutated: first, second and last item of a batch; 0 for a single image."""
    if spec["type"] in ("ImageBatch", "FlowFields"):
        return sorted({0, 1, NBATCH - 1})
    return [0]


def mut_ops(spec):
    fam = family(spec)
    if fam == "Grid":
        return ["center_", "spacing_", "direction_", "align_corners_", "edit:center", "edit:spacing", "edit:direction"]
    if fam == "Cube":
        return ["center_", "extent_", "direction_", "edit:center", "edit:extent"]
    if fam == "image":
        ops = ["add_", "edit:entry0", "grid_"]
        for k in item_indices(spec):
            ops += [f"edit:grid.center@{k}", f"edit:grid.spacing@{k}", f"grid.center_@{k}", f"grid.origin_@{k}", f"grid.spacing_@{k}",
                    f"grid.direction_@{k}", f"grid.align_corners_@{k}"]
        return ops
    ops = ["grid_", "edit:grid.center", "grid.align_corners_", "condition_", "update", "clear_buffers", "edit:params", "edit:buffers", "requires_grad_(False)", "flip:invert"]
    if spec["type"] not in COMPOSITE:
        ops += ["data_", "unlink_"]
    return ops


def reduced_ops(spec):
    """One op per mechanism for the deepest level."""
    fam = family(spec)
    mk = ["copy.copy", "copy.deepcopy", "pickle"]
    if fam == "Grid":
        return mk + ["acc:center(tuple)"], ["center_", "edit:spacing"]
    if fam == "Cube":
        return mk + ["acc:center(tuple)"], ["extent_", "edit:center"]
    if fam == "image":
        last = item_indices(spec)[-1]
        return mk + ["acc:grid(other)"], ["add_", "edit:grid.center@0", "grid.align_corners_@1" if last else "grid.align_corners_@0", f"grid.center_@{last}"]
    mk2 = mk + ["acc:grid(other)", "acc:inverse()"]
    mu = ["edit:params", "edit:grid.center", "grid_", "update"]
    if spec["type"] not in COMPOSITE:
        mk2.append("acc:data(tensor)")
        mu.append("data_")
    return mk2, mu


def apply_mk(spec, obj, how):
    if how == "copy.copy":
        return copy.copy(obj)
    if how == "copy.deepcopy":
        return copy.deepcopy(obj)
    if how == "pickle":
        return pickle.loads(pickle.dumps(obj))
    if how == "clone":
        return obj.clone()
    name = how[4:]
    return menu_for(spec)[name](obj, Ctx(spec))


def _all_tensors(module):
    out = []
    for _, p in module.named_parameters():
        out.append(p)
    return out


def apply_mut(spec, obj, how):
    """In-place modification of obj. Returns True if something was modified."""
    D = spec["D"]
    fam = family(spec)
    if fam in ("Grid", "Cube"):
        if how == "center_":
            obj.center_(tuple((_vecD(D, 5)).tolist()))
        elif how == "spacing_":
            obj.spacing_(tuple(_vecD(D, 6, 0.5, 2.0).tolist()))
        elif how == "extent_":
            obj.extent_(tuple(_vecD(D, 6, 1.0, 4.0).tolist()))
        elif how == "direction_":
            rot = ((0.0, -1.0), (1.0, 0.0)) if D == 2 else ((0.0, -1.0, 0.0), (1.0, 0.0, 0.0), (0.0, 0.0, 1.0))
            obj.direction_(rot)
        elif how == "align_corners_":
            obj.align_corners_(not obj.align_corners())
        elif how == "edit:center":
            obj.center().add_(1.0)
        elif how == "edit:spacing":
            obj.spacing().mul_(2.0)
        elif how == "edit:extent":
            obj.extent().mul_(2.0)
        elif how == "edit:direction":
            obj.direction().neg_()
        else:
            raise KeyError(how)
        return True
    if fam == "image":
        batch = spec["type"] in ("ImageBatch", "FlowFields")
        if how == "add_":
            obj.add_(1.0)
            return True
        if how == "edit:entry0":
            obj.as_subclass(Tensor)[0].zero_()
            return True
        if how == "grid_":
            obj.grid_(make_grid(D, "third"))
            return True
        what, _, k = how.partition("@")
        g = obj.grid(int(k)) if batch else obj.grid()
        if what == "edit:grid.center":
            g.center().add_(1.0)
        elif what == "edit:grid.spacing":
            g.spacing().mul_(2.0)
        elif what == "grid.center_":
            g.center_(tuple(_vecD(D, 5).tolist()))
        elif what == "grid.origin_":
            g.origin_(tuple(_vecD(D, 7).tolist()))
        elif what == "grid.spacing_":
            g.spacing_(tuple(_vecD(D, 6, 0.5, 2.0).tolist()))
        elif what == "grid.direction_":
            rot = ((0.0, -1.0), (1.0, 0.0)) if D == 2 else ((0.0, -1.0, 0.0), (1.0, 0.0, 0.0), (0.0, 0.0, 1.0))
            g.direction_(rot)
        elif what == "grid.align_corners_":
            g.align_corners_(not g.align_corners())
        else:
            raise KeyError(how)
        return True
    # transforms
    t = obj
    if how == "grid_":
        t.grid_(make_grid(D, "third"))
    elif how == "edit:grid.center":
        t.grid().center().add_(1.0)
    elif how == "grid.align_corners_":
        t.grid().align_corners_(not t.grid().align_corners())
    elif how == "condition_":
        t.condition_(R.vals((1, 3), 9), mode="x")
    elif how == "update":
        t.update()
    elif how == "clear_buffers":
        t.clear_buffers()
    elif how == "edit:params":
        ps = _all_tensors(t)
        if not ps:
            bs = [b for _, b in t.named_buffers() if b is not None and b.is_floating_point()]
            if not bs:
                return False
            with torch.no_grad():
                bs[0].add_(0.25)
            return True
        with torch.no_grad():
            for p in ps:
                p.add_(0.25)
    elif how == "edit:buffers":
        bs = [b for _, b in t.named_buffers() if b is not None and b.is_floating_point()]
        if not bs:
            return False
        with torch.no_grad():
            for b in bs:
                b.mul_(0.5)
    elif how == "requires_grad_(False)":
        t.requires_grad_(False)
    elif how == "flip:invert":
        if not hasattr(t, "invert"):
            return False
        t.invert = not t.invert
    elif how == "data_":
        t.data_(make_params(spec["type"], t, 11))
    elif how == "unlink_":
        t.unlink_()
    else:
        raise KeyError(how)
    return True


def run_history(spec, ops):
    """ops = [["mk", src, how] | ["mut", target, how], ...], src/target in {"first", "last"}.
    -> (status, problems [(problem, detail, step)], info)"""
    st, obj = guarded(build, spec)
    if st == "raises":
        return "build-raises", [], {}
    objs = [obj]
    comp = [0]  # deep component id of every object
    comp_how = {0: "original"}
    ncomp = 1
    problems = []
    info = {"effective": False, "steps": 0, "has_copy": False}
    for step, (kind, who, how) in enumerate(ops):
        idx = 0 if who == "first" else len(objs) - 1
        before = [mutfp.fp(o) for o in objs]
        if kind == "mk":
            st, new = guarded(apply_mk, spec, objs[idx], how)
            after = [mutfp.fp(o) for o in objs]
            for k, (b, a) in enumerate(zip(before, after)):
                if b != a:
                    kinds = sorted(mutfp.kinds_of_change(b, a)) or ["structure"]
                    rel = "source" if k == idx else "bystander"
                    problems.append((f"mk={how}/{rel}-" + "+".join(kinds), f"step {step}: making a copy by {how} of object {idx} changed object {k}: " + "; ".join(mutfp.diff(b, a)), step))
            if st == "raises":
                return "raises", problems, dict(info, reason=f"mk:{how}:{type(new).__name__}")
            if new is objs[idx]:
                return "ended", problems, dict(info, reason="accessor-returned-self")
            objs.append(new)
            if how in DEEP:
                comp.append(ncomp)
                comp_how[ncomp] = how
                ncomp += 1
            else:
                comp.append(comp[idx])
            info["has_copy"] = True
        else:
            st, changed = guarded(apply_mut, spec, objs[idx], how)
            after = [mutfp.fp(o) for o in objs]
            if st == "raises":
                # a failed setter may have half-modified its target; other components must still be untouched
                changed = True
            if before[idx] != after[idx] and len(objs) > 1:
                info["effective"] = True
            for k, (b, a) in enumerate(zip(before, after)):
                if k == idx or comp[k] == comp[idx]:
                    continue
                if b != a:
                    kinds = sorted(mutfp.kinds_of_change(b, a)) or ["structure"]
                    direction = "copy->original" if k < idx else "original->copy"
                    via = comp_how[max(comp[k], comp[idx])]
                    problems.append((f"via={via}/mut={how}/deep-copy-not-independent/{direction}/" + "+".join(kinds), f"step {step}: {how} on object {idx} changed object {k} although a deep copy separates them: " + "; ".join(mutfp.diff(b, a)), step))
            if st == "raises":
                return "raises", problems, dict(info, reason=f"mut:{how}:{type(changed).__name__}")
        info["steps"] = step + 1
        if problems:
            return "violated", problems, info
    # a transform whose parameters were removed (unlink) gets a torch.empty() buffer when it is linked again:
    # such states contain uninitialised memory by construction, so only their structure is hashed
    with_values = not any("unlink" in op[2] or "link(empty)" in op[2] for op in ops)
    info["final"] = h64(repr([mutfp.value_fp(o, values=with_values) for o in objs]), repr(comp))
    return "ok", problems, info


def hist_sig(spec, ops, problem, step):
    t = spec["type"]
    extra = f"[{spec.get('params', 'parameter')}]" if is_transform(spec) else ""
    return f"C15/history/{t}{extra}/{problem}"


def history_alphabet(spec, reduced=False):
    if reduced:
        mk, mu = reduced_ops(spec)
    else:
        mk, mu = mk_ops(spec), mut_ops(spec)
    ops = []
    for who in ("first", "last"):
        for how in mk:
            ops.append(["mk", who, how])
        for how in mu:
            ops.append(["mut", who, how])
    return ops


def explore_history(acc: Acc, spec, prefix, depth_full, depth_reduced, nobj):
    """DFS over histories; every history is executed from a fresh object (no live-object copying)."""
    if depth_full > 0:
        alphabet, df, dr = history_alphabet(spec), depth_full - 1, depth_reduced
    elif depth_reduced > 0:
        alphabet, df, dr = history_alphabet(spec, reduced=True), 0, depth_reduced - 1
    else:
        return
    for op in alphabet:
        if nobj == 1 and op[1] == "last":
            continue  # same as "first" while only one object exists
        if nobj == 1 and op[0] == "mut" and df == 0 and dr == 0:
            continue  # nothing to compare with: a lone object mutated at the last step
        ops = prefix + [op]
        status, problems, info = run_history(spec, ops)
        acc.trans()
        acc.trace("history", depth=len(ops))
        case = {"sub": "history", "spec": spec, "ops": ops}
        for problem, detail, step in problems:
            acc.violation(hist_sig(spec, ops, problem, step), case, detail, size=len(ops))
        acc.outcome("history", spec, ops, status, info.get("final"), info.get("reason"))
        if status == "ok":
            acc.state("history", spec, info["final"])
            if info["effective"] and info["has_copy"]:
                acc.nontriv("history", spec, ops)
            if len(ops) >= 2 and len(acc.samples) < 1:
                acc.sample({"sub": "history", "object": spec, "ops": ops})
            explore_history(acc, spec, ops, df, dr, nobj + (1 if op[0] == "mk" else 0))
        elif status in ("raises", "ended", "build-raises"):
            acc.undef(f"history-{status}:{info.get('reason', '')}")


def history_specs(tier):
    specs = [s for s in value_specs(tier)]
    for s in transform_specs(tier):
        if s["pre"] == "updated":
            specs.append(s)
    if tier == "quick":
        specs = [s for s in specs if s["D"] == 2 or s["type"] in ("Grid", "Image", "FlowFields", "QuaternionRotation")]
    return specs


def history_depths(tier):
    # (levels with the full alphabet, further levels with the reduced alphabet)
    return (2, 0) if tier == "quick" else (2, 1)


# ===========================================================================
# sub-check: derivation chains.  Every step derives a NEW object from the LAST one by a non-underscore accessor (or
# refreshes the last one with update()); after every step EVERY earlier live object (the original and all intermediate
# derived objects) must have the fingerprint - bitwise values, identity, _version - it had before the step.
CHAIN_OPS = ["inverse()", "inverse(link=True)", "inverse(link,update_buffers)", "inv", "link(twin)", "link(empty)", "unlink()",
             "copy.copy", "condition(tensor)", "data(tensor)", "grid(other)", "grid(same-object)"]
CHAIN_OPS_COMPOSITE = ["inverse()", "inverse(link=True)", "inv", "copy.copy", "condition(tensor)", "grid(other)"]
CHAIN_LAST = ["inverse(link=True)", "link(empty)", "link(twin)", "copy.copy", "data(tensor)", "condition(tensor)"]
CHAIN_LAST_COMPOSITE = ["inverse(link=True)", "copy.copy", "condition(tensor)"]


def chain_specs(tier):
    specs = [s for s in transform_specs(tier)]
    if tier == "quick":
        specs = [s for s in specs if s["D"] == 2 or s["type"] == "QuaternionRotation"]
    return specs


def chain_alphabet(spec, last=False):
    comp = spec["type"] in COMPOSITE
    names = (CHAIN_LAST_COMPOSITE if comp else CHAIN_LAST) if last else (CHAIN_OPS_COMPOSITE if comp else CHAIN_OPS)
    ops = [["mk", "last", "acc:" + n if n != "copy.copy" else n] for n in names]
    if not last:
        ops.append(["mut", "last", "update"])
    return ops


def chain_sig(spec, problem):
    return f"C15/chain/{spec['type']}[{spec.get('params', 'parameter')},{spec.get('pre', 'fresh')}]/{problem}"


def run_chain(spec, ops):
    """A chain is a history in which every earlier object must stay untouched: run_history judges every `mk` step against
    ALL existing objects; `update()` of the last object is additionally judged against all EARLIER objects here."""
    st, obj = guarded(build, spec)
    if st == "raises":
        return "build-raises", [], {}
    objs = [obj]
    problems = []
    info = {"nobj": 1}
    for step, (kind, who, how) in enumerate(ops):
        before = [mutfp.fp(o) for o in objs]
        if kind == "mk":
            st, new = guarded(apply_mk, spec, objs[-1], how)
        else:
            st, new = guarded(apply_mut, spec, objs[-1], how)
        after = [mutfp.fp(o) for o in objs]
        judged = range(len(objs)) if kind == "mk" else range(len(objs) - 1)
        for k in judged:
            if before[k] != after[k]:
                kinds = sorted(mutfp.kinds_of_change(before[k], after[k])) or ["structure"]
                rel = "receiver" if k == len(objs) - 1 else f"ancestor-{len(objs) - 1 - k}"
                problems.append((f"step={how}/{rel}-" + "+".join(kinds), f"step {step} ({how} on object {len(objs) - 1}) changed object {k}: " + "; ".join(mutfp.diff(before[k], after[k])), step))
        if st == "raises":
            return "raises", problems, dict(info, reason=f"{how}:{type(new).__name__}")
        if kind == "mk":
            if new is objs[-1]:
                return "ended", problems, dict(info, reason="accessor-returned-self")
            objs.append(new)
        if problems:
            return "violated", problems, info
    info["nobj"] = len(objs)
    # states with uninitialised memory by construction are hashed by structure only: a never-updated transform with
    # predicted parameters (buffer p = torch.empty), and anything linked to a parameter-less partner or unlinked
    with_values = not (spec.get("params") == "callable" and spec.get("pre", "fresh") == "fresh")
    with_values = with_values and not any("unlink" in op[2] or "link(empty)" in op[2] for op in ops)
    info["final"] = h64(repr([mutfp.value_fp(o, values=with_values) for o in objs]))
    return "ok", problems, info


def explore_chain(acc: Acc, spec, prefix, depth):
    last = depth == 1
    for op in chain_alphabet(spec, last=last):
        if prefix and prefix[-1][0] == "mut" and op[0] == "mut":
            continue
        ops = prefix + [op]
        status, problems, info = run_chain(spec, ops)
        acc.trans()
        acc.trace("chain", depth=len(ops))
        case = {"sub": "chain", "spec": spec, "ops": ops}
        for problem, detail, step in problems:
            acc.violation(chain_sig(spec, problem), case, detail, size=len(ops))
        acc.outcome("chain", spec, ops, status, info.get("final"), info.get("reason"))
        if status == "ok":
            acc.state("chain", spec, info["final"])
            if info["nobj"] >= 3:
                acc.nontriv("chain", spec, ops)
            if depth > 1:
                explore_chain(acc, spec, ops, depth - 1)
        elif status != "violated":
            acc.undef(f"chain-{status}:{info.get('reason', '')}")


# ===========================================================================
# sub-check: layout.  Reduced menu of the functional API (first LAYOUT_VARIANTS call variants of every function) with every
# tensor argument given as a non-contiguous view of the same values (ref/layout.py): the call must not raise where the
# contiguous form does not, must return the same result, and must leave the arguments alone (bits, strides, _version).
LAYOUT_FORMS = (("transposed", "contig"), ("sliced", "contig"), ("expanded", "repeat"))
LAYOUT_VARIANTS = 2
LAYOUT_SKIP = {"empty_image"}  # returns uninitialised memory
LAYOUT_RANDOM = {"multinomial", "rand_sample"}  # which samples are drawn may depend on the memory layout: shapes only
EPS32 = 2.0 ** -23


def layout_cases(tier):
    out = []
    for mod, name in R.surface():
        if name in LAYOUT_SKIP or R.recipe_for(mod, name) is None:
            continue
        D = 2 if func_variants(mod, name, 2) else 3
        out.append((mod, name, D))
    return out


def result_diff(a, b, path="result"):
    """None if two call results agree, else a short description.  Floating tensors: |a-b| <= 64 eps32 x 16 x max(1, |ref|max)
    (same arithmetic, possibly another kernel / summation order for another memory layout); everything else exact."""
    if isinstance(a, Tensor) or isinstance(b, Tensor):
        if not (isinstance(a, Tensor) and isinstance(b, Tensor)):
            return ("shape", f"{path}: {type(a).__name__} vs {type(b).__name__}")
        if a.shape != b.shape or a.dtype != b.dtype:
            return ("shape", f"{path}: {tuple(a.shape)} {a.dtype} vs {tuple(b.shape)} {b.dtype}")
        a, b = a.detach(), b.detach()
        if a.is_floating_point():
            x, y = a.double(), b.double()
            nan = torch.isnan(x) | torch.isnan(y)
            if bool((torch.isnan(x) != torch.isnan(y)).any()):
                return ("value", f"{path}: NaN pattern differs")
            if x.numel() == 0:
                return None
            x, y = torch.where(nan, torch.zeros_like(x), x), torch.where(nan, torch.zeros_like(y), y)
            fin = torch.isfinite(x) & torch.isfinite(y)
            if bool((torch.isfinite(x) != torch.isfinite(y)).any()) or bool((x[~fin] != y[~fin]).any()):
                return ("value", f"{path}: infinities differ")
            scale = max(1.0, float(x[fin].abs().max())) if bool(fin.any()) else 1.0
            err = float((x[fin] - y[fin]).abs().max()) if bool(fin.any()) else 0.0
            tol = 64 * EPS32 * 16 * scale
            return None if err <= tol else ("value", f"{path}: max abs difference {err:.3g} > tol {tol:.2g}")
        return None if torch.equal(a, b) else ("value", f"{path}: integer / bool values differ")
    if isinstance(a, (tuple, list)) and isinstance(b, (tuple, list)):
        if len(a) != len(b):
            return ("shape", f"{path}: {len(a)} vs {len(b)} elements")
        for i, (x, y) in enumerate(zip(a, b)):
            d = result_diff(x, y, f"{path}[{i}]")
            if d:
                return d
        return None
    if isinstance(a, dict) and isinstance(b, dict):
        if list(a) != list(b):
            return ("shape", f"{path}: keys differ")
        for k in a:
            d = result_diff(a[k], b[k], f"{path}[{k!r}]")
            if d:
                return d
        return None
    if mutfp._is_grid(a) and mutfp._is_grid(b):
        return None if mutfp.value_fp(a) == mutfp.value_fp(b) else ("value", f"{path}: grids differ")
    if type(a) is not type(b):
        return ("shape", f"{path}: {type(a).__name__} vs {type(b).__name__}")
    try:
        return None if a == b else ("value", f"{path}: {a!r} vs {b!r}"[:120])
    except Exception:  # noqa: BLE001
        return None


def _strides(m):
    return [(n, tuple(t.shape), tuple(t.stride()), t.storage_offset()) for n, t in m.watch]


def run_layout_call(mod, name, D, label, form, ref_form):
    """-> (status, problems [(problem, detail)], obs)"""
    r = R.recipe_for(mod, name)
    mr = R.Maker(D, ref_form)
    st, vr = guarded(r, mr, name=name)
    if st == "raises" or dict(vr).get(label) is None:
        return "norecipe", [], ("norecipe",)
    st0, ref = guarded(dict(vr)[label])
    if st0 == "raises":
        return "reference-raises", [], ("reference-raises", type(ref).__name__)
    m = R.Maker(D, form)
    _, v = guarded(r, m, name=name)
    noncontig = sum(1 for _, t in m.watch if not t.is_contiguous())
    if noncontig == 0:
        return "no-noncontiguous-argument", [], ("not-applicable",)
    before, sb = watch_snapshot(m), _strides(m)
    st, res = guarded(dict(v)[label])
    after, sa = watch_snapshot(m), _strides(m)
    problems = []
    for arg, problem, detail in compare_watch(before, after):
        problems.append(("operand-mutated", detail))
    if sb != sa:
        problems.append(("operand-mutated", f"shape / strides of an argument changed: {[x for x, y in zip(sb, sa) if x != y][:2]}"))
    if st == "raises":
        problems.append(("raises=" + type(res).__name__, exc_text(res)))
        return "ok", problems, ("raises", type(res).__name__, noncontig)
    d = result_diff(ref, res)
    if d and name in LAYOUT_RANDOM and d[0] == "value":
        d = None  # both are valid draws; the statement makes no promise about the random stream
    if d:
        problems.append(d)
    return "ok", problems, ("ok", summarize(res), noncontig)


def layout_sig(mod, name, label, form, problem):
    return f"C15/layout/{mod}.{name}/{label}/layout={form}/{problem}"


def run_layout_shard(acc: Acc, shard):
    for mod, name, D in shard["cases"]:
        for label in func_variants(mod, name, D)[:LAYOUT_VARIANTS]:
            for form, ref_form in LAYOUT_FORMS:
                status, problems, obs = run_layout_call(mod, name, D, label, form, ref_form)
                if status != "ok":
                    acc.undef("layout:" + status)
                    continue
                acc.trans(2)
                acc.trace("layout", depth=1)
                acc.state("layout", mod, name, label, form)
                acc.outcome("layout", mod, name, label, form, obs)
                acc.nontriv("layout", mod, name, label, form)
                case = {"sub": "layout", "mod": mod, "name": name, "D": D, "label": label, "form": form, "ref": ref_form}
                for problem, detail in problems:
                    acc.violation(layout_sig(mod, name, label, form, problem), case, detail, size=1)


# ===========================================================================
def bounds(tier):
    surf = R.surface()
    return {
        "functions": len(surf),
        "functions_with_recipe": sum(1 for mo, n in surf if R.recipe_for(mo, n) is not None),
        "uncovered_api": uncovered_api(),
        "aliasing_forms": list(R.FORMS),
        "dimensions": [2, 3],
        "accessor_receivers": len(value_specs(tier)) + len(transform_specs(tier)),
        "eval_transforms": len(eval_specs(tier)),
        "eval_methods": list(EVALS),
        "layout_functions": len(layout_cases(tier)),
        "layout_variants_per_function": LAYOUT_VARIANTS,
        "layout_forms": [f for f, _ in LAYOUT_FORMS],
        "chain_transforms": len(chain_specs(tier)),
        "chain_depth": 3,
        "chain_alphabet": CHAIN_OPS + ["update()"],
        "chain_alphabet_last_level": CHAIN_LAST,
        "history_objects": len(history_specs(tier)),
        "history_depth_full_alphabet": history_depths(tier)[0],
        "history_depth_reduced_alphabet": history_depths(tier)[1],
    }


def shards(tier: str, seed: int):
    out = []
    for mod, name, D in func_cases(tier):
        out.append({"sub": "func", "mod": mod, "name": name, "D": D})
    for spec in value_specs(tier) + transform_specs(tier):
        out.append({"sub": "accessor", "spec": spec})
    for spec in eval_specs(tier):
        out.append({"sub": "eval", "spec": spec})
    cases = layout_cases(tier)
    for j in range(0, len(cases), 8):
        out.append({"sub": "layout", "cases": [list(c) for c in cases[j : j + 8]]})
    for spec in chain_specs(tier):
        for op in chain_alphabet(spec):
            out.append({"sub": "chain", "spec": spec, "first": op})
    df, dr = history_depths(tier)
    for spec in history_specs(tier):
        for op in history_alphabet(spec):
            if op[1] == "last":
                continue
            out.append({"sub": "history", "spec": spec, "first": op, "df": df, "dr": dr})
    return out


def run_shard(shard) -> Acc:
    acc = Acc()
    sub = shard["sub"]
    if sub == "func":
        run_func_shard(acc, shard)
    elif sub == "accessor":
        run_accessor_shard(acc, shard)
    elif sub == "eval":
        run_eval_shard(acc, shard)
    elif sub == "layout":
        run_layout_shard(acc, shard)
    elif sub == "chain":
        spec, op = shard["spec"], shard["first"]
        status, problems, info = run_chain(spec, [op])
        acc.trans()
        acc.trace("chain", depth=1)
        for problem, detail, step in problems:
            acc.violation(chain_sig(spec, problem), {"sub": "chain", "spec": spec, "ops": [op]}, detail, size=1)
        acc.outcome("chain", spec, [op], status, info.get("final"), info.get("reason"))
        if status == "ok":
            acc.state("chain", spec, info["final"])
            explore_chain(acc, spec, [op], 2)
        elif status != "violated":
            acc.undef(f"chain-{status}:{info.get('reason', '')}")
    else:
        spec, op = shard["spec"], shard["first"]
        status, problems, info = run_history(spec, [op])
        acc.trans()
        acc.trace("history", depth=1)
        case = {"sub": "history", "spec": spec, "ops": [op]}
        for problem, detail, step in problems:
            acc.violation(hist_sig(spec, [op], problem, step), case, detail, size=1)
        acc.outcome("history", spec, [op], status, info.get("final"), info.get("reason"))
        if status == "ok":
            acc.state("history", spec, info["final"])
            explore_history(acc, spec, [op], shard["df"] - 1, shard["dr"], 1 + (1 if op[0] == "mk" else 0))
        elif status != "violated":
            acc.undef(f"history-{status}:{info.get('reason', '')}")
    return acc


def replay(case):
    sub = case["sub"]
    out = []
    if sub == "func":
        mod, name, D, form, label = case["mod"], case["name"], int(case["D"]), case["form"], case["label"]
        _, problems, _ = run_func_call(mod, name, D, form, label)
        for arg, problem, detail in problems:
            out.append((func_sig(mod, name, label, form, arg, problem), detail))
    elif sub == "accessor":
        spec = case["spec"]
        _, problems, _ = run_accessor(spec, case["name"])
        for problem, detail in problems:
            out.append((acc_sig(spec, case["name"], problem), detail))
    elif sub == "eval":
        spec = case["spec"]
        _, problems, _ = run_eval(spec, case["name"])
        for problem, detail in problems:
            out.append((eval_sig(spec, case["name"], problem), detail))
    elif sub == "layout":
        _, problems, _ = run_layout_call(case["mod"], case["name"], int(case["D"]), case["label"], case["form"], case["ref"])
        for problem, detail in problems:
            out.append((layout_sig(case["mod"], case["name"], case["label"], case["form"], problem), detail))
    elif sub == "chain":
        spec = case["spec"]
        _, problems, _ = run_chain(spec, [list(o) for o in case["ops"]])
        for problem, detail, step in problems:
            out.append((chain_sig(spec, problem), detail))
    else:
        spec = case["spec"]
        ops = [list(o) for o in case["ops"]]
        _, problems, _ = run_history(spec, ops)
        for problem, detail, step in problems:
            out.append((hist_sig(spec, ops, problem, step), detail))
    return out
