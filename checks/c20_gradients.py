"""C20 - gradients reaching parameters and inputs are the true derivatives.

Explored space: menu of differentiable public operations (entries) x D in {2, 3} x every differentiable input of
the entry x EVERY scalar coordinate of that input.  For each coordinate the autograd derivative of a fixed
generic linear functional  L = <w, op(inputs)>  is compared with a central finite difference of the same
function on the real code (the full gradient, not random directions).

Reference = the function itself evaluated at x +- h e_j and x +- 2h e_j.
* precision mode is *measured*, not assumed: second differences of L over nine points spaced 1.5e-8 (one float32
  quantum in total) give the evaluation noise; a float64-clean operation is differenced with h = 1e-6, one that
  casts (input or intermediate) to float32 - or rounds coordinates - with h = 2e-2.
* non-kink inputs are *verified*, not assumed: the central differences at h and 2h must agree and the second
  differences must scale like h^2 (across an interpolation kink or clamp they scale like h); otherwise the
  coordinate is counted as undefined (kink) and not judged.
A detach(), rounding call or integer cast leaves the function smooth at the chosen step while autograd returns
zero / None, which is what the comparison exposes.
"""
from __future__ import annotations

import math
import traceback
from collections import OrderedDict

import numpy as np
import torch

from mc.core import Acc, exc_text, guarded, h64, tensor_bytes

PROPERTY = "C20"
RULE = (
    "every entry of the operation menu (transform classes x views, core flow/image/bspline/linalg functions, "
    "every similarity / overlap / regularisation loss, functional and module) x D x every differentiable input x "
    "every scalar coordinate: autograd d<w,op>/dx_j vs central difference; distinct = (entry, D, input, coordinate); "
    "non-trivial = |finite difference| exceeds 10x the comparison tolerance (the output really depends on the coordinate); "
    "for every entry additionally: the same call evaluated twice reproduces value and gradient (bit for bit for the "
    "loss x mask-argument-subset x mask-dtype entries) and every argument (fixed images, masks of every dtype, module "
    "buffers, differentiated inputs) keeps its bytes and autograd _version across the calls; a sub-menu repeats the "
    "comparison with the differentiated input as a non-contiguous leaf or a non-contiguous (transposed / step-sliced) view of a leaf"
)
EXPLANATION = "full-Jacobian-row finite-difference check of every listed differentiable operation on the real code, with repeat-call and argument-fingerprint guards"
ASSUMPTIONS = [
    "inputs are float64 leaves; per input the mode is float64 (h = 1e-6, rtol 1e-6) when output dtype is float64 and the measured evaluation noise is < 1e-12 relative, else float32 (h = 2e-2, rtol 2e-2)",
    "tol = rtol * max|gradient of that input| + 64 * eps * sum|w_k out_k| / h with eps = 2^-52, or max(2^-23, 4 x measured noise) in float32 mode; a coordinate is a violation when |autograd - central difference| > 2 tol",
    "a coordinate is judged only if |fd(h) - fd(2h)| <= tol and |D2(2h) - 4 D2(h)| / 2h <= tol (no kink / clamp inside the stencil); otherwise it is counted as undefined",
    "deterministic generic inputs from one of four tables (VERIF_SEED); grids <= 9 samples per axis; CPU",
    "pointwise statement: nothing is claimed for a derivative that is wrong only on a measure-zero set of inputs",
]
MIN_NONTRIVIAL = {"quick": 15000, "thorough": 40000}
MIN_OUTCOMES = {"quick": 10000, "thorough": 25000}

EPS = {"f64": 2.0 ** -52, "f32": 2.0 ** -23}
STEP = {"f64": (1e-6, 1e-6), "f32": (2e-2, 2e-2)}  # mode -> (h, rtol)
C = 64.0


# ---------------------------------------------------------------------------
# deterministic generic numbers
def gen(shape, tab, salt, lo=-1.0, hi=1.0) -> torch.Tensor:
    n = int(np.prod(shape)) if len(shape) else 1
    i = np.arange(1, n + 1, dtype=np.float64)
    v = np.sin(i * (12.9898 + 0.37 * (tab % 4)) + (salt + 1) * 78.233) * 43758.5453
    v = v - np.floor(v)
    return torch.tensor((lo + (hi - lo) * v).reshape(shape), dtype=torch.float64)


def weights(n: int) -> torch.Tensor:
    k = torch.arange(n, dtype=torch.float64)
    return torch.cos(0.37 * k + 1.1) + 0.3 * torch.sin(1.3 * k + 0.2) + 0.15


def smooth_field(D, shape, tab, salt, amp=0.15):
    """Smooth generic vector field (1, D, *shape) in cube units."""
    ax = [torch.linspace(-1, 1, n, dtype=torch.float64) for n in shape]
    mesh = torch.meshgrid(*ax, indexing="ij")
    out = []
    for c in range(D):
        ph = gen((len(shape) + 1,), tab, salt * 7 + c, 0.0, 3.0)
        v = torch.zeros(shape, dtype=torch.float64)
        for d, m in enumerate(mesh):
            v = v + torch.sin((1.3 + 0.4 * d) * m + ph[d])
        out.append(amp * v / D + 0.02 * gen(shape, tab, salt * 11 + c))
    return torch.stack(out, 0).unsqueeze(0)


def image(shape, tab, salt, C_=1, N=1):
    """Generic smooth-ish image (N, C, *shape) with texture."""
    out = []
    for n in range(N):
        for c in range(C_):
            f = smooth_field(1, shape, tab, salt + 3 * n + c, amp=1.0)[0, 0]
            out.append(1.0 + f + 0.3 * gen(shape, tab, salt + 17 * n + 5 * c))
    return torch.stack(out, 0).reshape((N, C_) + tuple(shape))


def grid_shape(D, tier, small=False):
    """(..., Y, X) shapes: 'small' for vector fields (D components per sample), normal for images."""
    big = tier == "thorough"
    if D == 2:
        return ((6, 5) if big else (5, 4)) if small else ((8, 7) if big else (7, 6))
    return ((4, 4, 3) if big else (4, 3, 3)) if small else ((5, 5, 4) if big else (5, 4, 4))


def bspline_shape(D, tier):
    """Cubic B-spline kernels need >= 4 samples per axis."""
    return (6, 5) if D == 2 else (4, 4, 4)


# ---------------------------------------------------------------------------
class Entry:
    def __init__(self, name, inputs, fn, note="", storage=None, bitwise=False):
        self.name = name
        self.bitwise = bitwise  # repeat-call reproducibility demanded bit for bit (value and gradient)
        self.inputs = inputs  # OrderedDict name -> float64 leaf tensor (or nn.Parameter)
        self.fn = fn  # () -> Tensor | sequence | dict
        self.note = note
        # optional: name -> plain tensor aliasing the storage of the input (used for the +-h perturbation when the
        # leaf is a data object (ImageBatch / FlowFields) whose own indexing goes through __torch_function__)
        self.storage = storage or {}


ENTRIES = OrderedDict()  # name -> (builder, dims)


def entry(name, dims=(2, 3)):
    def deco(f):
        ENTRIES[name] = (f, dims)
        return f

    return deco


def flat_out(out):
    """Flatten the floating-point tensors of an output in a deterministic order."""
    if isinstance(out, torch.Tensor):
        ts = [out]
    elif isinstance(out, dict):
        ts = [out[k] for k in sorted(out, key=repr)]
    elif isinstance(out, (list, tuple)):
        ts = list(out)
    else:
        raise TypeError(f"output of type {type(out).__name__}")
    ts = [t for t in ts if isinstance(t, torch.Tensor) and t.is_floating_point()]
    return ts


def functional(out):
    """L = <w, out> in float64 and S = sum |w_k out_k|; also the dtype mode."""
    ts = flat_out(out)
    if not ts:
        raise TypeError("no floating point output")
    v = torch.cat([t.reshape(-1).double() for t in ts])
    w = weights(v.numel())
    mode = "f64" if all(t.dtype == torch.float64 for t in ts) else "f32"
    return (w * v).sum(), float((w * v).abs().sum().detach()), mode


def leaf(t):
    return t.detach().clone().double().requires_grad_(True)


def raise_site(e) -> str:
    where = ""
    for fr in reversed(traceback.extract_tb(e.__traceback__)):
        if "/deepali/" in fr.filename:
            where = "@" + fr.name
            break
    return f"raises={type(e).__name__}{where}"


def _closure_tensors(fn, exclude_ids):
    """Every tensor the operation closes over that is NOT a differentiated input: fixed images, points, masks,
    module buffers (except the u / v / p buffers a transform recomputes by design).  name -> tensor."""
    found = OrderedDict()
    seen = set()

    def add(name, v, depth=0):
        if id(v) in seen or depth > 3:
            return
        seen.add(id(v))
        if isinstance(v, torch.Tensor):
            if id(v) not in exclude_ids:
                found[name] = v
        elif isinstance(v, torch.nn.Module):
            for bn, b_ in v.named_buffers():
                if bn.split(".")[-1] not in ("u", "v", "p") and id(b_) not in exclude_ids:
                    found[f"{name}.{bn}"] = b_
        elif isinstance(v, dict):
            for k, x in v.items():
                add(f"{name}[{k}]", x, depth + 1)
        elif isinstance(v, (list, tuple)):
            for i, x in enumerate(v):
                add(f"{name}[{i}]", x, depth + 1)
        elif callable(v) and getattr(v, "__closure__", None):
            walk(v, depth + 1)

    def walk(f, depth=0):
        code = getattr(f, "__code__", None)
        cells = getattr(f, "__closure__", None) or ()
        names = code.co_freevars if code is not None else [str(i) for i in range(len(cells))]
        for nm, cell in zip(names, cells):
            try:
                add(nm, cell.cell_contents, depth)
            except ValueError:
                pass

    walk(fn)
    return found


class _Strided:
    """Element access by flat (row-major) index for a non-contiguous tensor (e.g. parameters replaced by grid_())."""

    def __init__(self, t):
        self.t = t
        self.shape = tuple(t.shape)

    def __getitem__(self, j):
        return self.t[tuple(int(i) for i in np.unravel_index(j, self.shape))]

    def __setitem__(self, j, v):
        self.t[tuple(int(i) for i in np.unravel_index(j, self.shape))] = v


def _flat(t):
    return t.view(-1) if t.is_contiguous() else _Strided(t)


def _mutation_check(name, D, res, snap_fixed, snap_inputs, inputs0, versions_of_inputs=False):
    """Fingerprint (bytes and autograd _version counter) of every argument: fixed tensors always; differentiated
    inputs by bytes, and by _version only while the harness itself has not yet perturbed them."""
    seen = {p_[0] for p_ in res["problems"]}
    for k, (v, b0, ver0) in snap_fixed.items():
        short = k.split(".")[-1].split("[")[-1].rstrip("]") if "[" in k else k.split(".")[-1]
        if tensor_bytes(v) != b0:
            sig = f"{name}/D={D}/input-mutated/{short}"
            if sig not in seen:
                res["problems"].append((sig, f"tensor '{k}' handed to the operation (not differentiated) was modified in place by evaluating it"))
        elif v._version != ver0:
            sig = f"{name}/D={D}/input-written-in-place/{short}"
            if sig not in seen:
                res["problems"].append((sig, f"tensor '{k}' handed to the operation was written in place (_version {ver0} -> {v._version}) although its bytes ended up equal"))
    for k, t in inputs0:
        b0, ver0 = snap_inputs[k]
        if tensor_bytes(t) != b0:
            sig = f"{name}/D={D}/input-mutated/wrt={k}"
            if sig not in seen:
                res["problems"].append((sig, f"differentiated input '{k}' differs from its initial value: the operation modifies it in place"))
        elif versions_of_inputs and t._version != ver0:
            res["problems"].append((f"{name}/D={D}/input-written-in-place/wrt={k}", f"differentiated input '{k}' was written in place by the operation (_version {ver0} -> {t._version})"))


def _noise(at, flat, n):
    """max |second difference| of L over 9 points spaced 1.5e-8 * scale along up to three coordinates."""
    worst = 0.0
    for j in sorted({0, n // 2, n - 1}):
        x0 = float(flat[j])
        d = 1.5e-8 * max(abs(x0), 0.1)
        v = [at(j, x0 + k * d) for k in range(9)]
        for k in range(1, 8):
            worst = max(worst, abs(v[k - 1] - 2 * v[k] + v[k + 1]))
    return worst


# ---------------------------------------------------------------------------
def check_entry(name, D, tab, tier):
    """Run one entry.  Returns dict(problems=[(sigtail, detail)], per-input stats, counters)."""
    res = {"problems": [], "evals": 0, "coords": 0, "nontriv": [], "undef": [], "outcome": [], "mode": None, "inputs": {}}
    builder, _ = ENTRIES[name]
    st, ent = guarded(builder, D, tab, tier)
    if st == "raises":
        res["problems"].append((f"{name}/D={D}/setup/{raise_site(ent)}", "building the operation: " + exc_text(ent)))
        return res
    if ent is None:
        res["undef"].append("not-applicable")
        return res
    # autograd
    def run():
        return functional(ent.fn())

    inputs0 = list(ent.inputs.items())
    # by construction: nothing the operation is given may be modified by evaluating it (fingerprints are taken
    # BEFORE the first call: bytes and autograd _version of every argument, masks and module buffers included)
    fixed = _closure_tensors(ent.fn, {id(t) for _, t in inputs0} | {id(v) for v in ent.storage.values()})
    snap_fixed = {k: (v, tensor_bytes(v), v._version) for k, v in fixed.items()}
    snap_inputs = {k: (tensor_bytes(t), t._version) for k, t in inputs0}
    res["evals"] += 1
    st, r = guarded(run)
    if st == "raises":
        res["problems"].append((f"{name}/D={D}/forward/{raise_site(r)}", "forward evaluation: " + exc_text(r)))
        return res
    L, S, mode = r
    res["mode"] = mode
    if not torch.isfinite(L):
        res["problems"].append((f"{name}/D={D}/forward/nonfinite", f"functional of the output is {float(L)}"))
        return res
    inputs = list(ent.inputs.items())
    if not L.requires_grad:
        res["problems"].append((f"{name}/D={D}/output-not-differentiable", "output does not require grad although inputs do"))
        grads = [None] * len(inputs)
    else:
        st, grads = guarded(torch.autograd.grad, L, [t for _, t in inputs], allow_unused=True)
        if st == "raises":
            res["problems"].append((f"{name}/D={D}/backward/{raise_site(grads)}", "autograd.grad: " + exc_text(grads)))
            _mutation_check(name, D, res, snap_fixed, snap_inputs, list(ent.inputs.items()), versions_of_inputs=True)
            return res
    # a second evaluation (forward + backward) must reproduce the first: state carried over between calls
    # (in-place edits of inputs, stale buffers) shows up here
    res["evals"] += 1
    st, r2 = guarded(run)
    if st == "raises":
        res["problems"].append((f"{name}/D={D}/second-evaluation/{raise_site(r2)}", "second forward evaluation: " + exc_text(r2)))
        return res
    L2 = r2[0]
    rep_tol = C * EPS[mode] * max(S, 1e-300) * 8
    if not abs(float(L2) - float(L)) <= rep_tol:
        res["problems"].append((f"{name}/D={D}/second-evaluation-differs", f"L = {float(L):.12g} on the first call, {float(L2):.12g} on the second (tol {rep_tol:.1e})"))
    elif L.requires_grad and L2.requires_grad:
        st, grads2 = guarded(torch.autograd.grad, L2, [t for _, t in inputs], allow_unused=True)
        if st == "raises":
            res["problems"].append((f"{name}/D={D}/second-evaluation/backward/{raise_site(grads2)}", "second autograd.grad: " + exc_text(grads2)))
        else:
            for (iname, t), g1, g2 in zip(inputs, grads, grads2):
                if (g1 is None) != (g2 is None):
                    res["problems"].append((f"{name}/D={D}/wrt={iname}/second-gradient-differs", "gradient is None in one of two identical evaluations"))
                elif g1 is not None:
                    gm = float(g1.detach().abs().max()) if g1.numel() else 0.0
                    d12 = float((g1.detach().double() - g2.detach().double()).abs().max()) if g1.numel() else 0.0
                    if math.isfinite(gm) and math.isfinite(d12) and d12 > C * EPS[mode] * max(gm, S) * 8:  # NaN/inf gradients are reported as grad-nonfinite
                        res["problems"].append((f"{name}/D={D}/wrt={iname}/second-gradient-differs", f"max |g1 - g2| = {d12:.3e} between two identical evaluations (max |g| {gm:.3e})"))
    if ent.bitwise:
        if float(L2) != float(L):
            res["problems"].append((f"{name}/D={D}/repeat-call-not-bitwise", f"the same call gave L = {float(L)!r} and then {float(L2)!r}"))
        elif L.requires_grad and L2.requires_grad and st == "ok":
            for (iname, t), g1, g2 in zip(inputs, grads, grads2):
                if g1 is not None and g2 is not None and not torch.equal(g1.detach(), g2.detach()) and not (torch.isnan(g1).any() or torch.isnan(g2).any()):
                    res["problems"].append((f"{name}/D={D}/wrt={iname}/repeat-gradient-not-bitwise", "two identical calls gave gradients that differ in at least one bit"))
    # arguments untouched by two plain evaluations (before the harness perturbs anything itself)
    _mutation_check(name, D, res, snap_fixed, snap_inputs, inputs0, versions_of_inputs=True)
    for (iname, t), g in zip(inputs, grads):
        n = t.numel()
        gad = np.zeros(n) if g is None else g.detach().double().reshape(-1).numpy().copy()
        flat = _flat(ent.storage[iname] if iname in ent.storage else t.data)

        def at(j, x):
            x0 = float(flat[j])
            with torch.no_grad():
                flat[j] = x
                v = float(run()[0])
                flat[j] = x0
            return v

        def fd(j, h):
            x0 = float(flat[j])
            return (at(j, x0 + h) - at(j, x0 - h)) / (2 * h)

        # measured evaluation noise of L along this input: second differences over steps far below any
        # finite-difference step but spanning one float32 quantum.  A float64-preserving smooth operation gives
        # ~1e-16 * S; an operation that casts (the input or an intermediate) to float32 gives ~1e-8 * S.
        imode, noise = mode, 0.0
        st, nu = guarded(lambda: _noise(at, flat, n))
        res["evals"] += 9 * min(n, 3)
        if st == "raises":
            res["problems"].append((f"{name}/D={D}/wrt={iname}/perturbed-forward/{raise_site(nu)}", "evaluation at a perturbed input: " + exc_text(nu)))
            continue
        if nu / max(S, 1e-300) > 1e-12:
            imode = "f32"
        eps = max(EPS[imode], 4.0 * nu / max(S, 1e-300)) if imode == "f32" else EPS[imode]
        res.setdefault("imodes", {})[iname] = imode
        # Step selection.  float64-clean input: h = 1e-6.  Otherwise the step is the member of {1e-4, 1e-3, 2e-2} that
        # minimises the derived tolerance  rtol(h) * max|autograd| + 64 * eps_eff * S / h  with eps_eff = max(eps of the
        # output dtype, 4 x measured noise / S): an operation that only passes the *input* or constant coordinates through
        # float32 is differenced with h = 1e-3, a float32 loss with h = 2e-2.  A small step matters where the input moves
        # interpolation sample positions: with h = 2e-2 several samples cross cell boundaries inside one stencil and
        # their kinks can cancel in the smoothness tests.  Non-float64 rungs use a 6-point stencil (+-h/2, +-h, +-2h)
        # and demand agreement of fd(h/2), fd(h), fd(2h) and h^2-scaling of the second differences on BOTH step pairs.
        # Rung 2 (float64 mode only): coordinates not verifiably smooth at 1e-6 (a rounding call makes the function
        # a staircase at that scale) are re-examined with h = 2e-2.
        L0 = float(L)

        def stencils(js, h, six):
            offs = (-2 * h, -h, -h / 2, h / 2, h, 2 * h) if six else (-2 * h, -h, h, 2 * h)
            out = np.empty((len(js), len(offs)))
            for r, j in enumerate(js):
                x0 = float(flat[j])
                out[r] = [at(j, x0 + o) for o in offs]
            return out

        def analyse(sten, h, tol_of):
            """-> (estimate fd(h), verified-smooth mask given a tolerance function h -> tol)"""
            six = sten.shape[1] == 6
            m2, m1, p1, p2 = sten[:, 0], sten[:, 1], sten[:, -2], sten[:, -1]
            f1 = (p1 - m1) / (2 * h)
            f2 = (p2 - m2) / (4 * h)
            d1 = p1 - 2 * L0 + m1
            d2 = p2 - 2 * L0 + m2
            kink = np.abs(d2 - 4 * d1) / (2 * h)  # second differences: ~h^2 if smooth, ~h across a kink
            fin = np.isfinite(f1) & np.isfinite(f2) & np.isfinite(kink)
            with np.errstate(invalid="ignore"):
                ok = fin & (np.abs(f1 - f2) <= tol_of(h)) & (kink <= tol_of(h))
                if six:
                    mh, ph = sten[:, 2], sten[:, 3]
                    fh = (ph - mh) / h
                    dh = ph - 2 * L0 + mh
                    kh = np.abs(d1 - 4 * dh) / h
                    ok = ok & np.isfinite(fh) & (np.abs(fh - f1) <= tol_of(h / 2)) & (kh <= tol_of(h / 2))
            return f1, ok, fin

        gfin = gad[np.isfinite(gad)]
        gmax = float(np.max(np.abs(gfin))) if gfin.size else 0.0
        if gfin.size < gad.size:
            # the statement demands finite gradients everywhere, also at coordinates the finite differences cannot judge
            jbad = int(np.flatnonzero(~np.isfinite(gad))[0])
            res["problems"].append((f"{name}/D={D}/wrt={iname}/grad-nonfinite", f"{gad.size - gfin.size}/{gad.size} gradient entries are NaN/inf (first: coordinate {jbad} = {gad[jbad]}) although the loss value is finite"))
        if imode == "f64":
            h, rtol = STEP["f64"]
        else:
            cands = [(1e-4, 1e-4), (1e-3, 1e-3), STEP["f32"]]
            h, rtol = STEP["f32"] if gmax == 0.0 else min(cands, key=lambda c: c[1] * gmax + C * eps * S / c[0])
        six = imode != "f64"
        st, sten = guarded(stencils, list(range(n)), h, six)
        res["evals"] += (6 if six else 4) * n
        if st == "raises":
            res["problems"].append((f"{name}/D={D}/wrt={iname}/perturbed-forward/{raise_site(sten)}", "evaluation at x +- h: " + exc_text(sten)))
            continue
        G = gmax
        for _ in range(2):  # the gradient scale is taken from verified coordinates only
            tol_of = lambda hh, G=G: rtol * G + C * eps * S / hh  # noqa: E731
            f1, smooth, fin = analyse(sten, h, tol_of)
            G = max(float(np.max(np.abs(f1[smooth]))) if smooth.any() else 0.0, gmax)
        tol = rtol * G + C * eps * S / h
        est = np.where(smooth, f1, np.nan)
        tols = np.full(n, tol)
        hs = np.full(n, h)
        retry = [j for j in range(n) if not smooth[j]] if imode == "f64" else []
        if retry:
            h2, rtol2 = STEP["f32"]
            st, sten2 = guarded(stencils, retry, h2, True)
            res["evals"] += 6 * len(retry)
            if st == "ok":
                G2 = max(gmax, G)
                for _ in range(2):
                    tol2_of = lambda hh, G2=G2: rtol2 * G2 + C * EPS["f32"] * S / hh  # noqa: E731
                    g1, ok2, fin2 = analyse(sten2, h2, tol2_of)
                    G2 = max(float(np.max(np.abs(g1[ok2]))) if ok2.any() else 0.0, gmax, G)
                tol2 = rtol2 * G2 + C * EPS["f32"] * S / h2
                for r, j in enumerate(retry):
                    if ok2[r]:
                        est[j], tols[j], hs[j] = g1[r], tol2, h2
        worst = None
        nbad = 0
        n_nontriv = 0
        n_undef = 0
        kinds = set()
        for j in range(n):
            if not math.isfinite(est[j]):
                n_undef += 1  # not verifiably smooth: kink / clamp within the stencil
                continue
            a_, tj = est[j], tols[j]
            err = abs(gad[j] - a_)
            if not math.isfinite(gad[j]):
                pass  # reported once per input above
            elif err > 2 * tj:
                nbad += 1
                kinds.add("grad-missing" if g is None else "grad-zero" if gad[j] == 0.0 else "grad-mismatch")
                if worst is None or err > abs(worst[1] - worst[2]):
                    worst = (j, gad[j], a_, tj, hs[j])
            if abs(a_) > 10 * tj:
                n_nontriv += 1
                res["nontriv"].append((iname, j))
        f1 = np.where(np.isfinite(est), est, 0.0)
        fin = np.isfinite(est)
        res["coords"] += n
        if n_undef:
            res["undef"].append(("kink-or-nonsmooth", n_undef))
        if nbad:
            kind = "grad-missing" if "grad-missing" in kinds else "grad-zero" if kinds == {"grad-zero"} else "grad-nonfinite" if "grad-nonfinite" in kinds else "grad-mismatch"
            j, ga, fa, tol, h = worst
            res["problems"].append(
                (f"{name}/D={D}/wrt={iname}/{kind}", f"{nbad}/{n} coordinates differ; worst coordinate {j}: autograd {ga:.6g} vs central difference {fa:.6g} (h={h:g}, tol {tol:.2e}, mode {imode})")
            )
        res["inputs"][iname] = {"n": n, "nontrivial": n_nontriv, "undefined": n_undef, "bad": nbad, "G": G}
        res["outcome"].append((iname, [float(v) for v in np.round(np.where(fin, f1, 0.0) / max(G, 1e-300), 4)]))
    _mutation_check(name, D, res, snap_fixed, snap_inputs, inputs0)
    return res


# ---------------------------------------------------------------------------
# ENTRY MENU
# ---------------------------------------------------------------------------
def _grid(D, tier, ac=True, small=False):
    from deepali.core.grid import Grid

    shape = grid_shape(D, tier, small)
    sp = (0.5, 1.25, 2.0)[:D]
    return Grid(shape=shape, spacing=sp, align_corners=ac)


def _points(D, tab, M=5, salt=0, lim=0.7):
    return gen((1, M, D), tab, 100 + salt, -lim, lim)


# ---- spatial transforms ------------------------------------------------------
def _set_params(t, tab, scale):
    """Give every parameter of the transform generic values of the given scale (around its initial value)."""
    k = 0
    for n_, p in t.named_parameters():
        with torch.no_grad():
            p.add_(gen(tuple(p.shape), tab, 31 + k).to(p.dtype) * scale)
        k += 1


def _transform(kind, D, tier, tab):
    import deepali.spatial as S

    small = kind in ("DDF", "SVF", "SeqAffineDDF", "MultiLevelDDF", "GenericAffineSVF")
    g = _grid(D, tier, small=small)
    if kind == "Translation":
        t, sc = S.Translation(g), 0.2
    elif kind == "EulerRotation":
        t, sc = S.EulerRotation(g), 0.4
    elif kind == "EulerRotationZXZ":
        if D != 3:
            return None
        t, sc = S.EulerRotation(g, order="zxz"), 0.4
    elif kind == "QuaternionRotation":
        if D != 3:
            return None
        t, sc = S.QuaternionRotation(g), 0.3
    elif kind == "IsotropicScaling":
        t, sc = S.IsotropicScaling(g), 0.3
    elif kind == "AnisotropicScaling":
        t, sc = S.AnisotropicScaling(g), 0.3
    elif kind == "Shearing":
        t, sc = S.Shearing(g), 0.4
    elif kind == "HomogeneousTransform":
        t, sc = S.HomogeneousTransform(g), 0.2
    elif kind == "RigidTransform":
        t, sc = S.RigidTransform(g), 0.3
    elif kind == "RigidQuaternionTransform":
        if D != 3:
            return None
        t, sc = S.RigidQuaternionTransform(g), 0.3
    elif kind == "SimilarityTransform":
        t, sc = S.SimilarityTransform(g), 0.3
    elif kind == "AffineTransform":
        t, sc = S.AffineTransform(g), 0.3
    elif kind == "FullAffineTransform":
        t, sc = S.FullAffineTransform(g), 0.3
    elif kind == "DDF":
        t, sc = S.DisplacementFieldTransform(g), 0.12
    elif kind == "SVF":
        t, sc = S.StationaryVelocityFieldTransform(g, steps=3), 0.12
    elif kind == "FFD":
        t, sc = S.FreeFormDeformation(g, stride=4 if (D == 3 and tier == "quick") else 3), 0.12
    elif kind == "SVFFD":
        t, sc = S.StationaryVelocityFreeFormDeformation(g, stride=4 if (D == 3 and tier == "quick") else 3, steps=3), 0.12
    elif kind == "SeqAffineDDF":
        t, sc = S.SequentialTransform(S.AffineTransform(g), S.DisplacementFieldTransform(g)), 0.1
    elif kind == "MultiLevelDDF":
        t, sc = S.MultiLevelTransform(S.DisplacementFieldTransform(g), S.DisplacementFieldTransform(g, stride=2)), 0.08
    elif kind == "GenericAffineSVF":
        cfg = S.TransformConfig(transform="Affine o SVF", affine_model="TRS")
        t, sc = S.GenericSpatialTransform(g, config=cfg), 0.1
    else:
        raise KeyError(kind)
    t = t.double()
    _set_params(t, tab, sc)
    if kind == "SeqAffineDDF":
        # the affine member moves the points at which the dense member is interpolated: give the dense member a field
        # that is AFFINE in the cube coordinates, which multilinear interpolation reproduces exactly (no kinks when the
        # sample positions move); the gradient w.r.t. the dense parameters does not depend on their values anyway
        ddf = list(t.transforms())[1]
        gg = ddf.grid()
        x = gg.coords(dtype=torch.float64)  # (..., X, D)
        A = 0.1 * gen((D, D), tab, 77) + 0.05 * torch.eye(D, dtype=torch.float64)
        b_ = 0.05 * gen((D,), tab, 78)
        field = (x @ A.T + b_).movedim(-1, 0).unsqueeze(0)
        with torch.no_grad():
            ddf.params.copy_(field.to(ddf.params.dtype))
    return t


TRANSFORM_KINDS = (
    "Translation", "EulerRotation", "EulerRotationZXZ", "QuaternionRotation", "IsotropicScaling", "AnisotropicScaling", "Shearing",
    "HomogeneousTransform", "RigidTransform", "RigidQuaternionTransform", "SimilarityTransform", "AffineTransform",
    "FullAffineTransform", "DDF", "SVF", "FFD", "SVFFD", "SeqAffineDDF", "MultiLevelDDF", "GenericAffineSVF",
)
INVERTIBLE = tuple(k for k in TRANSFORM_KINDS if k not in ("DDF", "FFD", "SeqAffineDDF", "MultiLevelDDF", "GenericAffineSVF"))
POINT_VIEWS = ("AffineTransform", "SVF", "FFD", "SeqAffineDDF")


def _params(t):
    return OrderedDict((n_, p) for n_, p in t.named_parameters())


def _mk_transform_entries():
    for kind in TRANSFORM_KINDS:
        def b_call(D, tab, tier, kind=kind):
            t = _transform(kind, D, tier, tab)
            if t is None:
                return None
            x = _points(D, tab, M=6)
            return Entry(f"{kind}.call", _params(t), lambda: t(x))

        def b_points_in(D, tab, tier, kind=kind):
            t = _transform(kind, D, tier, tab)
            if t is None:
                return None
            x = leaf(_points(D, tab, M=4, salt=1, lim=0.6))
            ins = OrderedDict(points=x)
            return Entry(f"{kind}.call/points", ins, lambda: t(x))

        def b_disp(D, tab, tier, kind=kind):
            t = _transform(kind, D, tier, tab)
            if t is None:
                return None

            def f():
                t.update()
                return t.disp()

            return Entry(f"{kind}.disp", _params(t), f)

        def b_transformer(D, tab, tier, kind=kind):
            import deepali.spatial as S

            t = _transform(kind, D, tier, tab)
            if t is None:
                return None
            img = image(tuple(t.grid().shape), tab, 3, C_=1, N=1)
            tr = S.ImageTransformer(t).double()
            return Entry(f"{kind}.ImageTransformer", _params(t), lambda: tr(img))

        if kind in ("AffineTransform", "DDF", "FFD", "SVF"):
            for pad in (0.25, -3.5):
                def b_trpad(D, tab, tier, kind=kind, pad=pad):
                    import deepali.spatial as S

                    t = _transform(kind, D, tier, tab)
                    if t is None:
                        return None
                    img = image(tuple(t.grid().shape), tab, 4, C_=1, N=1)
                    tr = S.ImageTransformer(t, padding=pad).double()
                    return Entry(f"{kind}.ImageTransformer(padding={pad})", _params(t), lambda: tr(img))

                ENTRIES[f"transform/{kind}/ImageTransformer/padding={pad}"] = (b_trpad, (2, 3))
        if kind in POINT_VIEWS:
            def b_pts(D, tab, tier, kind=kind):
                import deepali.spatial as S

                t = _transform(kind, D, tier, tab)
                if t is None:
                    return None
                g = t.grid()
                xw = g.transform_points(_points(D, tab, M=5, salt=6, lim=0.6), axes=t.axes(), to_axes="world", decimals=None).double()
                pst = S.PointSetTransformer(t, axes="world", to_axes="grid")

                def f():
                    t.update()
                    return t.points(xw, axes="world", to_axes="world"), pst(xw)

                return Entry(f"{kind}.points", _params(t), f)

            ENTRIES[f"transform/{kind}/points+PointSetTransformer"] = (b_pts, (2, 3))
        ENTRIES[f"transform/{kind}/call"] = (b_call, (2, 3))
        ENTRIES[f"transform/{kind}/call-wrt-points"] = (b_points_in, (2, 3))
        ENTRIES[f"transform/{kind}/disp"] = (b_disp, (2, 3))
        ENTRIES[f"transform/{kind}/ImageTransformer"] = (b_transformer, (2, 3))
        if kind in INVERTIBLE:
            def b_inv(D, tab, tier, kind=kind):
                t = _transform(kind, D, tier, tab)
                if t is None:
                    return None
                x = _points(D, tab, M=6, salt=2)
                inv = t.inverse()
                return Entry(f"{kind}.inverse().call", _params(t), lambda: inv(x))

            def b_inv_disp(D, tab, tier, kind=kind):
                t = _transform(kind, D, tier, tab)
                if t is None:
                    return None

                def f():
                    inv = t.inverse(link=True, update_buffers=True)
                    inv.update()
                    return inv.disp()

                return Entry(f"{kind}.inverse(link).disp", _params(t), f)

            ENTRIES[f"transform/{kind}/inverse-call"] = (b_inv, (2, 3))
            ENTRIES[f"transform/{kind}/inverse-link-disp"] = (b_inv_disp, (2, 3))


_mk_transform_entries()


# ---- SpatialTransform.points for every axes pair / other grids, disp and flow on other grids, linked inverse
# ---- evaluated without update(), data tensor types (FlowFields / ImageBatch) -------------------------------
def _other_grids(g):
    """Grids other than the transform's own: same domain other size, other domain, same geometry other flag."""
    from deepali.core.grid import Grid

    D = g.ndim
    size = [int(n) for n in g.size()]
    sp = [float(v) for v in g.spacing()]
    return OrderedDict(
        [
            ("same-domain", g.resize(tuple(n + 2 for n in size))),
            ("other-domain", Grid(size=tuple(n + 1 for n in size), spacing=tuple(0.8 * v for v in sp), center=tuple(0.1 * v * (i + 1) for i, v in enumerate(sp)), align_corners=g.align_corners())),
            ("other-flag", g.align_corners(not g.align_corners())),
        ]
    )


POINTS_KINDS = ("AffineTransform", "DDF")  # one linear (composite) and one dense model
AXES_NAMES = ("grid", "cube", "cube_corners", "world")


def _mk_points_entries():
    for kind in POINTS_KINDS:
        for a in AXES_NAMES:
            for b in AXES_NAMES:
                def b_pts(D, tab, tier, kind=kind, a=a, b=b):
                    t = _transform(kind, D, tier, tab)
                    if t is None:
                        return None
                    g = t.grid()
                    og = _other_grids(g)["other-domain"]
                    x0 = _points(D, tab, M=4, salt=7, lim=0.5)
                    xa = leaf(g.transform_points(x0, axes=t.axes(), to_axes=a, decimals=None))
                    xo = leaf(og.transform_points(g.transform_points(x0, axes=t.axes(), to_axes="world", decimals=None), axes="world", to_axes=a, decimals=None))
                    ins = _params(t)
                    ins["points"] = xa
                    ins["points_other_grid"] = xo

                    def f():
                        t.update()
                        return (
                            t.points(xa, axes=a, to_axes=b),
                            t.points(xa, axes=a, to_grid=og, to_axes=b),
                            t.points(xo, grid=og, axes=a, to_axes=b),
                        )

                    return Entry(f"{kind}.points", ins, f)

                ENTRIES[f"transform/{kind}/points/{a}->{b}"] = (b_pts, (2, 3))
            def b_dflt(D, tab, tier, kind=kind, a=a):
                t = _transform(kind, D, tier, tab)
                if t is None:
                    return None
                g = t.grid()
                og = _other_grids(g)["same-domain"]
                xa = leaf(g.transform_points(_points(D, tab, M=4, salt=8, lim=0.5), axes=t.axes(), to_axes=a, decimals=None))
                ins = _params(t)
                ins["points"] = xa

                def f():
                    t.update()
                    return t.points(xa, axes=a), t.points(xa, axes=a, to_grid=og)  # to_axes defaults to axes

                return Entry(f"{kind}.points", ins, f)

            ENTRIES[f"transform/{kind}/points/{a}->default"] = (b_dflt, (2, 3))


_mk_points_entries()

OTHER_GRID_KINDS = ("Translation", "EulerRotation", "AffineTransform", "DDF", "SVF", "FFD", "SVFFD", "SeqAffineDDF")


def _mk_other_grid_entries():
    for kind in OTHER_GRID_KINDS:
        for gname in ("own", "same-domain", "other-domain", "other-flag"):
            for view in ("disp",):
                # flow(g) returns a FlowFields data object, which by documented design is constructed as a NEW LEAF
                # (DataTensor requires_grad semantics); only disp(g) is an operation optimised through.  "own" repeats
                # transform/<kind>/disp on purpose (explicit grid argument).

                def b(D, tab, tier, kind=kind, gname=gname, view=view):
                    t = _transform(kind, D, tier, tab)
                    if t is None:
                        return None
                    g2 = t.grid() if gname == "own" else _other_grids(t.grid())[gname]

                    def f():
                        t.update()
                        if view == "disp":
                            return t.disp(g2)
                        return t.flow(g2).tensor()

                    return Entry(f"{kind}.{view}({gname})", _params(t), f)

                ENTRIES[f"transform/{kind}/{view}@{gname}"] = (b, (2, 3))


_mk_other_grid_entries()


def _mk_linked_inverse_entries():
    for kind in INVERTIBLE:
        for how in ("inverse(link=True)", "inv"):
            def b(D, tab, tier, kind=kind, how=how):
                t = _transform(kind, D, tier, tab)
                if t is None:
                    return None
                x = _points(D, tab, M=4, salt=9, lim=0.5)

                def f():
                    # the linked inverse is used directly: no __call__, no update() before tensor()/disp()/points()
                    inv = t.inv if how == "inv" else t.inverse(link=True)
                    out = [inv.tensor(), inv.disp(), inv.points(x)]
                    if hasattr(inv, "matrix"):
                        out.append(inv.matrix())
                    return out

                return Entry(f"{kind}.{how} without update", _params(t), f)

            ENTRIES[f"transform/{kind}/linked-inverse-no-update/{how}"] = (b, (2, 3))


_mk_linked_inverse_entries()

# ---- parameters re-assigned through the public setters must stay optimisable --------------------------------------
def _apply_setter(t, kind, how, D, tab):
    """Re-assign the parameters of a freshly constructed transform (params=True) with a PLAIN tensor through a public
    setter.  Returns the transform to differentiate (the same object, or the accessor copy)."""
    import deepali.spatial as S

    def plain(shape, salt, lo=-0.3, hi=0.3):
        return gen(shape, tab, 200 + salt, lo, hi).float()

    def set_member(m):
        cls = type(m).__name__
        if how == "data_":
            cur = m.data().detach()
            return m.data_(cur + plain(tuple(cur.shape), 1, -0.1, 0.1))
        if how == "data(arg)":
            cur = m.data().detach()
            return m.data(cur + plain(tuple(cur.shape), 2, -0.1, 0.1))
        if cls == "Translation":
            return m.offset_(plain((1, D), 3))
        if cls in ("EulerRotation", "Shearing"):
            return m.angles_(plain((1, m.nangles), 4))
        if cls == "QuaternionRotation":
            return m.quaternion_(plain((1, 4), 5) + torch.tensor([[1.5, 0.0, 0.0, 0.0]]))
        if cls == "IsotropicScaling":
            return m.scales_(plain((1, 1), 6, 0.8, 1.3))
        if cls == "AnisotropicScaling":
            return m.scales_(plain((1, D), 7, 0.8, 1.3))
        if cls == "HomogeneousTransform":
            return m.matrix_(torch.eye(D, D + 1).unsqueeze(0) + plain((1, D, D + 1), 8, -0.2, 0.2))
        cur = m.data().detach()
        return m.data_(cur + plain(tuple(cur.shape), 9, -0.1, 0.1))

    if how == "grid_":
        g = t.grid()
        if kind in ("FFD", "SVFFD"):
            g2 = g.resize(tuple(2 * int(n) - 1 for n in g.size()))  # control point grid subdivision
        else:
            g2 = g.resize(tuple(int(n) + 2 for n in g.size()))
        with torch.no_grad():
            for p_ in t.parameters():
                p_.add_(plain(tuple(p_.shape), 10, -0.1, 0.1))
        return t.grid_(g2)
    if isinstance(t, S.SequentialTransform):
        if how == "data(arg)":
            return None
        for m in t.transforms():
            set_member(m)
        return t
    return set_member(t)


SETTER_KINDS = tuple(k for k in TRANSFORM_KINDS if k not in ("SeqAffineDDF", "MultiLevelDDF", "GenericAffineSVF", "EulerRotationZXZ"))


def _mk_setter_entries():
    import itertools

    for kind in SETTER_KINDS:
        hows = ["setter", "data_", "data(arg)"]
        if kind in ("DDF", "SVF", "FFD", "SVFFD"):
            hows = ["data_", "data(arg)", "grid_"]
        for how in hows:
            def b(D, tab, tier, kind=kind, how=how):
                import deepali.spatial as S

                small = kind in ("DDF", "SVF")
                g = _grid(D, tier, small=small or how == "grid_")
                ctor = {
                    "Translation": S.Translation, "EulerRotation": S.EulerRotation, "QuaternionRotation": S.QuaternionRotation,
                    "IsotropicScaling": S.IsotropicScaling, "AnisotropicScaling": S.AnisotropicScaling, "Shearing": S.Shearing,
                    "HomogeneousTransform": S.HomogeneousTransform, "RigidTransform": S.RigidTransform,
                    "RigidQuaternionTransform": S.RigidQuaternionTransform, "SimilarityTransform": S.SimilarityTransform,
                    "AffineTransform": S.AffineTransform, "FullAffineTransform": S.FullAffineTransform,
                    "DDF": S.DisplacementFieldTransform,
                    "SVF": lambda g_: S.StationaryVelocityFieldTransform(g_, steps=3),
                    "FFD": lambda g_: S.FreeFormDeformation(g_, stride=3),
                    "SVFFD": lambda g_: S.StationaryVelocityFreeFormDeformation(g_, stride=3, steps=3),
                }[kind]
                if D == 2 and kind in ("QuaternionRotation", "RigidQuaternionTransform"):
                    return None
                t = ctor(g)  # params=True: optimisable nn.Parameter(s)
                t2 = _apply_setter(t, kind, how, D, tab)
                if t2 is None:
                    return None
                t2 = t2.double()
                x = _points(D, tab, M=5, salt=11, lim=0.6)
                ins = _params(t2)
                if not ins:
                    raise AssertionError("transform has no parameters after the setter")
                return Entry(f"{kind} after {how}", ins, lambda: t2(x))

            ENTRIES[f"transform/{kind}/after-setter/{how}"] = (b, (2, 3))


_mk_setter_entries()


# NOTE: the data-object API (deepali.data ImageBatch / FlowFields) is deliberately NOT in the menu: data/*.py is not among
# the anchor files of C20 and these objects are constructed and re-wrapped as new leaves by design (see triage/C20.md,
# "Observations outside the statement").


# ---- core image / flow functions ------------------------------------------------
def _U():
    import deepali.core.functional as U

    return U


@entry("core/grid_sample/linear-border")
def _(D, tab, tier):
    U = _U()
    shape = grid_shape(D, tier)
    img = leaf(image(shape, tab, 1, C_=2))
    co = leaf(gen((1,) + tuple(grid_shape(D, tier, True)) + (D,), tab, 2, -0.8, 0.8))
    return Entry("grid_sample", OrderedDict(data=img, grid=co), lambda: U.grid_sample(img, co, mode="linear", padding="border"))


@entry("core/grid_sample/linear-zeros-acF")
def _(D, tab, tier):
    U = _U()
    shape = grid_shape(D, tier)
    img = leaf(image(shape, tab, 4, C_=1))
    co = leaf(gen((1,) + tuple(grid_shape(D, tier, True)) + (D,), tab, 5, -0.75, 0.75))
    return Entry("grid_sample", OrderedDict(data=img, grid=co), lambda: U.grid_sample(img, co, mode="linear", padding="zeros", align_corners=False))


@entry("core/grid_sample/constant-padding")
def _(D, tab, tier):
    U = _U()
    shape = grid_shape(D, tier)
    img = leaf(image(shape, tab, 6, C_=1))
    co = leaf(gen((1,) + tuple(grid_shape(D, tier, True)) + (D,), tab, 7, -0.8, 0.8))
    return Entry("grid_sample", OrderedDict(data=img, grid=co), lambda: U.grid_sample(img, co, padding=-3.5))


for _pad in (0.25, -3.5):
    for _fn in ("grid_sample", "sample_image", "warp_image", "SampleImage", "TransformImage"):
        def _b(D, tab, tier, fn=_fn, pad=_pad):
            U = _U()
            from deepali.core.grid import Grid
            import deepali.modules as M

            shape = grid_shape(D, tier)
            g = Grid(shape=shape)
            img = image(shape, tab, 94, C_=1)  # fixed image of the caller: float64, requires no grad
            small = tuple(grid_shape(D, tier, True))
            if fn == "grid_sample":
                co = leaf(gen((1,) + small + (D,), tab, 95, -0.85, 0.85))
                return Entry(fn, OrderedDict(grid=co), lambda: U.grid_sample(img, co, padding=pad))
            if fn == "sample_image":
                co = leaf(gen((1, 7, D), tab, 96, -0.85, 0.85))
                return Entry(fn, OrderedDict(coords=co), lambda: U.sample_image(img, co, padding=pad))
            if fn == "warp_image":
                flow = leaf(smooth_field(D, shape, tab, 97, amp=0.15).movedim(1, -1).contiguous())
                coords = g.coords(dtype=torch.float64).unsqueeze(0)
                return Entry(fn, OrderedDict(flow=flow), lambda: U.warp_image(img, coords, flow=flow, padding=pad))
            tg = Grid(shape=small)
            if fn == "SampleImage":
                m = M.SampleImage(target=tg, source=g, padding=pad).double()
                co = leaf(tg.coords(dtype=torch.float64).unsqueeze(0) * 0.9 + 0.03 * gen((1,) + small + (D,), tab, 98))
                return Entry(fn, OrderedDict(grid=co), lambda: m(co, img))
            if D == 2:
                return None  # a (1, 2, 3) tensor is ambiguous for TransformImage in 2-D (unbatched flow vs batched affine)
            m = M.TransformImage(target=tg, source=g, padding=pad).double()
            a = leaf(torch.eye(D, D + 1, dtype=torch.float64).unsqueeze(0) + 0.15 * gen((1, D, D + 1), tab, 99))
            return Entry(fn, OrderedDict(transform=a), lambda: m(a, img))

        ENTRIES[f"core/scalar-padding={_pad}/fixed-image/{_fn}"] = (_b, (2, 3))


@entry("core/sample_image")
def _(D, tab, tier):
    U = _U()
    shape = grid_shape(D, tier)
    img = leaf(image(shape, tab, 8, C_=2))
    co = leaf(gen((1, 7, D), tab, 9, -0.8, 0.8))
    return Entry("sample_image", OrderedDict(data=img, coords=co), lambda: U.sample_image(img, co))


@entry("core/warp_image")
def _(D, tab, tier):
    U = _U()
    from deepali.core.grid import Grid

    shape = grid_shape(D, tier)
    g = Grid(shape=shape)
    img = leaf(image(shape, tab, 10, C_=1))
    flow = leaf(smooth_field(D, shape, tab, 11, amp=0.12).movedim(1, -1).contiguous())  # (1, ..., X, D)
    coords = g.coords(dtype=torch.float64).unsqueeze(0)
    return Entry("warp_image", OrderedDict(data=img, flow=flow), lambda: U.warp_image(img, coords, flow=flow))


@entry("core/warp_image/acF-zeros")
def _(D, tab, tier):
    U = _U()
    from deepali.core.grid import Grid

    shape = grid_shape(D, tier)
    g = Grid(shape=shape, align_corners=False)
    img = leaf(image(shape, tab, 12, C_=1))
    flow = leaf(smooth_field(D, shape, tab, 13, amp=0.12).movedim(1, -1).contiguous())
    coords = g.coords(dtype=torch.float64).unsqueeze(0)
    return Entry("warp_image", OrderedDict(data=img, flow=flow), lambda: U.warp_image(img, coords, flow=flow, padding="zeros", align_corners=False))


@entry("core/warp_grid+warp_points")
def _(D, tab, tier):
    U = _U()
    from deepali.core.grid import Grid

    shape = grid_shape(D, tier, True)
    g = Grid(shape=shape)
    flow = leaf(smooth_field(D, shape, tab, 14, amp=0.1))
    coords = g.coords(dtype=torch.float64).unsqueeze(0)
    pts = leaf(_points(D, tab, M=5, salt=3))
    return Entry("warp_grid", OrderedDict(flow=flow, points=pts), lambda: (U.warp_grid(flow, coords), U.warp_points(flow, pts)))


@entry("core/sample_flow")
def _(D, tab, tier):
    U = _U()
    shape = grid_shape(D, tier, True)
    flow = leaf(smooth_field(D, shape, tab, 15, amp=0.1))
    pts = leaf(_points(D, tab, M=6, salt=4))
    return Entry("sample_flow", OrderedDict(flow=flow, coords=pts), lambda: U.sample_flow(flow, pts))


for _steps in (0, 1, 4):
    for _ac in (True, False):
        def _b(D, tab, tier, steps=_steps, ac=_ac):
            U = _U()
            shape = grid_shape(D, tier, True)
            v = leaf(smooth_field(D, shape, tab, 16 + steps, amp=0.2))
            return Entry("expv", OrderedDict(flow=v), lambda: U.expv(v, steps=steps, align_corners=ac))

        ENTRIES[f"core/expv/steps={_steps}/ac={'T' if _ac else 'F'}"] = (_b, (2, 3))


@entry("core/expv/inverse-scale")
def _(D, tab, tier):
    U = _U()
    shape = grid_shape(D, tier, True)
    v = leaf(smooth_field(D, shape, tab, 21, amp=0.2))
    return Entry("expv", OrderedDict(flow=v), lambda: U.expv(v, steps=3, scale=0.5, inverse=True))


@entry("modules/ExpFlow")
def _(D, tab, tier):
    from deepali.modules import ExpFlow

    shape = grid_shape(D, tier, True)
    v = leaf(smooth_field(D, shape, tab, 22, amp=0.2))
    m = ExpFlow(steps=3)
    mi = m.inverse()
    return Entry("ExpFlow", OrderedDict(flow=v), lambda: (m(v), mi(v)))


for _ac in (True, False):
    def _b(D, tab, tier, ac=_ac):
        U = _U()
        shape = grid_shape(D, tier, True)
        u = leaf(smooth_field(D, shape, tab, 23, amp=0.15))
        v = leaf(smooth_field(D, shape, tab, 24, amp=0.15))
        return Entry("compose_flows", OrderedDict(u=u, v=v), lambda: U.compose_flows(u, v, align_corners=ac))

    ENTRIES[f"core/compose_flows/ac={'T' if _ac else 'F'}"] = (_b, (2, 3))

for _k in (0, 1, 2, 3, 4, 5):
    def _b(D, tab, tier, k=_k):
        U = _U()
        shape = grid_shape(D, tier, True)
        u = leaf(smooth_field(D, shape, tab, 25, amp=0.15))
        v = leaf(smooth_field(D, shape, tab, 26, amp=0.15))
        return Entry("compose_svfs", OrderedDict(u=u, v=v), lambda: U.compose_svfs(u, v, bch_terms=k))

    ENTRIES[f"core/compose_svfs/bch_terms={_k}"] = (_b, (2, 3))


@entry("core/lie_bracket")
def _(D, tab, tier):
    U = _U()
    shape = grid_shape(D, tier, True)
    u = leaf(smooth_field(D, shape, tab, 27, amp=0.15))
    v = leaf(smooth_field(D, shape, tab, 28, amp=0.15))
    return Entry("lie_bracket", OrderedDict(v=v, u=u), lambda: U.lie_bracket(v, u))


@entry("core/logv")
def _(D, tab, tier):
    U = _U()
    shape = grid_shape(D, tier, True)
    u = leaf(smooth_field(D, shape, tab, 29, amp=0.1))
    return Entry("logv", OrderedDict(flow=u), lambda: U.logv(u, num_iters=2, exp_steps=2))


@entry("core/logv/sigma=None-bch2")
def _(D, tab, tier):
    U = _U()
    shape = grid_shape(D, tier, True)
    u = leaf(smooth_field(D, shape, tab, 30, amp=0.1))
    return Entry("logv", OrderedDict(flow=u), lambda: U.logv(u, num_iters=2, bch_terms=2, sigma=None, exp_steps=2))


@entry("core/affine_flow")
def _(D, tab, tier):
    U = _U()
    g = _grid(D, tier, small=True)
    m = leaf(torch.eye(D, D + 1, dtype=torch.float64).unsqueeze(0) + 0.2 * gen((1, D, D + 1), tab, 31))
    return Entry("affine_flow", OrderedDict(matrix=m), lambda: U.affine_flow(m, g))


@entry("core/normalize+denormalize_flow")
def _(D, tab, tier):
    U = _U()
    shape = grid_shape(D, tier, True)
    u = leaf(smooth_field(D, shape, tab, 32, amp=0.5))
    return Entry("normalize_flow", OrderedDict(flow=u), lambda: (U.normalize_flow(u), U.denormalize_flow(u, align_corners=False)))


# ---- spatial derivatives ---------------------------------------------------------
DERIV_MODES = ("forward", "backward", "central", "forward_central_backward", "prewitt", "sobel", "bspline", "gaussian")

for _mode in DERIV_MODES:
    def _b(D, tab, tier, mode=_mode):
        U = _U()
        shape = bspline_shape(D, tier) if mode == "bspline" else grid_shape(D, tier, True)
        img = leaf(image(shape, tab, 33, C_=2))
        kw = {"mode": mode}
        if mode == "gaussian":
            kw["sigma"] = 0.7
        return Entry("spatial_derivatives", OrderedDict(data=img), lambda: U.spatial_derivatives(img, order=1, **kw))

    ENTRIES[f"core/spatial_derivatives/order=1/mode={_mode}"] = (_b, (2, 3))

for _mode in ("forward_central_backward", "sobel", "bspline"):
    def _b(D, tab, tier, mode=_mode):
        U = _U()
        shape = bspline_shape(D, tier) if mode == "bspline" else grid_shape(D, tier, True)
        img = leaf(image(shape, tab, 34, C_=1))
        return Entry("spatial_derivatives", OrderedDict(data=img), lambda: U.spatial_derivatives(img, order=2, mode=mode, spacing=(0.5, 1.25, 2.0)[:D]))

    ENTRIES[f"core/spatial_derivatives/order=2/mode={_mode}"] = (_b, (2, 3))

for _fn in ("jacobian_det", "jacobian_matrix", "divergence", "curl", "flow_derivatives", "divergence_free_flow"):
    for _mode in (None, "sobel"):
        def _b(D, tab, tier, fn=_fn, mode=_mode):
            U = _U()
            shape = grid_shape(D, tier, True)
            u = leaf(smooth_field(D, shape, tab, 35, amp=0.3))
            f = getattr(U, fn)
            kw = {} if mode is None else {"mode": mode}
            if fn == "flow_derivatives":
                kw["order"] = 1
            if fn == "divergence_free_flow":
                if mode is not None:
                    return None
                C_ = 1 if D == 2 else 3
                d = leaf(image(shape, tab, 36, C_=C_))
                return Entry(fn, OrderedDict(data=d), lambda: f(d))
            return Entry(fn, OrderedDict(flow=u), lambda: f(u, **kw))

        ENTRIES[f"core/{_fn}/mode={_mode}"] = (_b, (2, 3))


# ---- B-splines --------------------------------------------------------------------
for _stride in (1, 2, 3):
    for _tr in (False, True):
        def _b(D, tab, tier, stride=_stride, tr=_tr):
            U = _U()
            shape = grid_shape(D, tier, True)
            cp = U.cubic_bspline_control_point_grid_size(tuple(shape), stride)
            c = leaf(gen((1, 2) + tuple(cp), tab, 37 + stride))
            return Entry("evaluate_cubic_bspline", OrderedDict(data=c), lambda: U.evaluate_cubic_bspline(c, shape=shape, stride=stride, transpose=tr))

        ENTRIES[f"core/evaluate_cubic_bspline/stride={_stride}/transpose={_tr}"] = (_b, (2, 3))

for _der in (1, 2):
    def _b(D, tab, tier, der=_der):
        U = _U()
        shape = grid_shape(D, tier, True)
        cp = U.cubic_bspline_control_point_grid_size(tuple(shape), 2)
        c = leaf(gen((1, 1) + tuple(cp), tab, 41 + der))
        dv = (der,) + (0,) * (D - 1)
        return Entry("evaluate_cubic_bspline", OrderedDict(data=c), lambda: U.evaluate_cubic_bspline(c, shape=shape, stride=2, derivative=dv))

    ENTRIES[f"core/evaluate_cubic_bspline/derivative={_der}"] = (_b, (2, 3))


@entry("core/subdivide_cubic_bspline")
def _(D, tab, tier):
    U = _U()
    c = leaf(gen((1, 2) + tuple(grid_shape(D, tier, True)), tab, 44))
    return Entry("subdivide_cubic_bspline", OrderedDict(data=c), lambda: (U.subdivide_cubic_bspline(c), U.subdivide_cubic_bspline(c, dims=0)))


# ---- image resampling helpers ------------------------------------------------------
for _fn, _kw in (
    ("grid_reshape", {}), ("grid_resize", {}), ("downsample", {}), ("upsample", {}), ("conv", {}), ("avg_pool", {}), ("finite_differences", {}), ("crop+pad", {}), ("center_crop+center_pad", {}), ("gaussian_pyramid", {}),
):
    def _b(D, tab, tier, fn=_fn):
        U = _U()
        shape = grid_shape(D, tier)
        img = leaf(image(shape, tab, 45, C_=2))
        ins = OrderedDict(data=img)
        new = tuple(n + 2 for n in shape)
        if fn == "grid_reshape":
            return Entry(fn, ins, lambda: (U.grid_reshape(img, new), U.grid_reshape(img, new, align_corners=False)))
        if fn == "grid_resize":
            return Entry(fn, ins, lambda: U.grid_resize(img, new[::-1]))
        if fn == "downsample":
            return Entry(fn, ins, lambda: (U.downsample(img, 1), U.downsample(img, 1, sigma=0)))
        if fn == "upsample":
            return Entry(fn, ins, lambda: U.upsample(img, 1))
        if fn == "conv":
            k = gen((3,), tab, 46, 0.1, 1.0)
            return Entry(fn, ins, lambda: U.conv(img, k, padding="border" if False else 1))
        if fn == "avg_pool":
            return Entry(fn, ins, lambda: U.avg_pool(img, 3, stride=1, padding=1, count_include_pad=False))
        if fn == "finite_differences":
            return Entry(fn, ins, lambda: (U.finite_differences(img, 0), U.finite_differences(img, 1, mode="central", spacing=0.5), U.finite_differences(img, 0, mode="forward", dilation=2)))
        if fn == "crop+pad":
            return Entry(fn, ins, lambda: (U.crop(img, margin=1), U.pad(img, margin=1, mode="replicate"), U.pad(img, margin=(1, 2)[:1] * D, value=2.0)))
        if fn == "center_crop+center_pad":
            return Entry(fn, ins, lambda: (U.center_crop(img, tuple(n - 2 for n in shape)[::-1]), U.center_pad(img, new[::-1])))
        if fn == "gaussian_pyramid":
            return Entry(fn, ins, lambda: U.gaussian_pyramid(img, levels=2))
        raise KeyError(fn)

    ENTRIES[f"core/image/{_fn}"] = (_b, (2, 3))


# ---- grid coordinate maps ------------------------------------------------------------
AXES = ("grid", "cube", "cube_corners", "world")

for _a in AXES:
    for _b_ in AXES:
        for _dec in ("None", "default"):
            if _dec == "default" and _b_ != "world":
                continue  # the default rounds GRID / CUBE coordinates (documented); only WORLD stays unrounded

            def _b(D, tab, tier, a=_a, b=_b_, dec=_dec):
                from deepali.core.grid import Grid

                g = Grid(shape=grid_shape(D, tier), spacing=(0.5, 1.25, 2.0)[:D], center=(10.5, -3.25, 100.0)[:D])
                g2 = Grid(shape=grid_shape(D, tier, True), spacing=(0.7, 0.9, 1.1)[:D], align_corners=False)
                x = leaf(gen((4, D), tab, 47, -0.9, 0.9))
                kw = {"decimals": None} if dec == "None" else {}
                return Entry("Grid.transform_points", OrderedDict(points=x), lambda: (g.transform_points(x, axes=a, to_axes=b, **kw), g.transform_points(x, axes=a, to_axes=b, to_grid=g2, **kw), g.transform_vectors(x, axes=a, to_axes=b)))

            ENTRIES[f"grid/transform_points/{_a}->{_b_}/decimals={_dec}"] = (_b, (2, 3))


# ---- rotation algebra ---------------------------------------------------------------------
EULER_ORDERS = ("XYZ", "ZYX", "ZXZ", "XZX", "YXZ", "XYX")

for _o in EULER_ORDERS:
    def _b(D, tab, tier, o=_o):
        U = _U()
        if D == 2:
            if o != "XYZ":
                return None
            a = leaf(gen((3, 1), tab, 48, -2.5, 2.5))
            return Entry("euler_rotation_matrix", OrderedDict(angles=a), lambda: U.euler_rotation_matrix(a))
        a = leaf(gen((2, 3), tab, 49, -2.5, 2.5))
        return Entry("euler_rotation_matrix", OrderedDict(angles=a), lambda: U.euler_rotation_matrix(a, order=o))

    ENTRIES[f"linalg/euler_rotation_matrix/order={_o}"] = (_b, (2, 3))


def _unit_quat(tab, salt, n=3):
    q = gen((n, 4), tab, salt, -1, 1)
    q = q + torch.tensor([1.5, 0, 0, 0], dtype=torch.float64)  # keep w > 0, away from the branch at w = 0
    return q / q.norm(dim=1, keepdim=True)


for _fn in (
    "quaternion_to_rotation_matrix", "normalize_quaternion", "quaternion_to_angle_axis", "angle_axis_to_quaternion", "angle_axis_to_rotation_matrix",
    "rotation_matrix_to_quaternion", "rotation_matrix_to_angle_axis", "quaternion_log_to_exp", "quaternion_exp_to_log", "euler_rotation_angles",
    "shear_matrix", "scaling_transform", "translation",
):
    def _b(D, tab, tier, fn=_fn):
        U = _U()
        import deepali.core.affine as A
        import deepali.core.linalg as LA

        if D == 2 and fn not in ("shear_matrix", "scaling_transform", "translation"):
            return None
        if fn in ("quaternion_to_rotation_matrix", "quaternion_to_angle_axis", "quaternion_exp_to_log"):
            q = leaf(_unit_quat(tab, 50))
            return Entry(fn, OrderedDict(quaternion=q), lambda: getattr(LA, fn)(q))
        if fn == "normalize_quaternion":
            q = leaf(gen((3, 4), tab, 51, 0.2, 1.5))
            return Entry(fn, OrderedDict(quaternion=q), lambda: LA.normalize_quaternion(q))
        if fn in ("angle_axis_to_quaternion", "angle_axis_to_rotation_matrix"):
            a = leaf(gen((3, 3), tab, 52, -1.2, 1.2))
            return Entry(fn, OrderedDict(angle_axis=a), lambda: getattr(LA, fn)(a))
        if fn == "quaternion_log_to_exp":
            a = leaf(gen((3, 3), tab, 53, -1.0, 1.0))
            return Entry(fn, OrderedDict(log=a), lambda: LA.quaternion_log_to_exp(a))
        if fn in ("rotation_matrix_to_quaternion", "rotation_matrix_to_angle_axis", "euler_rotation_angles"):
            ang = gen((2, 3), tab, 54, 0.3, 1.2)
            m = leaf(A.euler_rotation_matrix(ang, order="ZXZ").double())
            if fn == "euler_rotation_angles":
                return Entry(fn, OrderedDict(matrix=m), lambda: (A.euler_rotation_angles(m, order="ZXZ"), A.euler_rotation_angles(m, order="XZX")))
            return Entry(fn, OrderedDict(matrix=m), lambda: getattr(LA, fn)(m))
        if fn == "shear_matrix":
            a = leaf(gen((2, 1 if D == 2 else 3), tab, 55, -0.6, 0.6))
            return Entry(fn, OrderedDict(angles=a), lambda: A.shear_matrix(a))
        if fn == "scaling_transform":
            a = leaf(gen((2, D), tab, 56, 0.5, 1.5))
            return Entry(fn, OrderedDict(scales=a), lambda: A.scaling_transform(a))
        if fn == "translation":
            a = leaf(gen((2, D), tab, 57, -1, 1))
            return Entry(fn, OrderedDict(offset=a), lambda: A.translation(a))
        raise KeyError(fn)

    ENTRIES[f"linalg/{_fn}"] = (_b, (2, 3))


@entry("linalg/homogeneous_transform+matmul")
def _(D, tab, tier):
    U = _U()
    a = leaf(torch.eye(D, D + 1, dtype=torch.float64).unsqueeze(0) + 0.3 * gen((1, D, D + 1), tab, 58))
    b = leaf(torch.eye(D, dtype=torch.float64).unsqueeze(0) + 0.3 * gen((1, D, D), tab, 59))
    t = leaf(gen((1, D, 1), tab, 60))
    x = leaf(gen((1, 5, D), tab, 61))
    return Entry("homogeneous_matmul", OrderedDict(A=a, B=b, t=t, points=x), lambda: (U.homogeneous_transform(U.homogeneous_matmul(a, b, t), x), U.homogeneous_transform(a, x, vectors=True), U.as_homogeneous_matrix(U.hmm(t, b))))


@entry("core/transform_points+transform_grid")
def _(D, tab, tier):
    U = _U()
    from deepali.core.grid import Grid

    shape = grid_shape(D, tier, True)
    a = leaf(torch.eye(D, D + 1, dtype=torch.float64).unsqueeze(0) + 0.2 * gen((1, D, D + 1), tab, 62))
    u = leaf(smooth_field(D, shape, tab, 63, amp=0.1))
    x = leaf(_points(D, tab, M=5, salt=5))
    gx = Grid(shape=shape).coords(dtype=torch.float64).unsqueeze(0)
    return Entry("transform_points", OrderedDict(affine=a, flow=u, points=x), lambda: (U.transform_points(a, x), U.transform_points(u, x), U.transform_grid(u, gx), U.transform_grid(a, gx)))


# ---- losses ------------------------------------------------------------------------------
def _Lf():
    import deepali.losses.functional as L_

    return L_


def loss_shape(D, tier):
    """Small images for the losses: the per-voxel gradient of a mean-type loss is ~1/numel of its value and has
    to stay well above the float32 evaluation noise (64 eps / h ~ 4e-4 relative) for the casting losses."""
    big = tier == "thorough"
    if D == 2:
        return (6, 5) if big else (5, 4)
    return (4, 4, 3) if big else (4, 3, 3)


def _pair(D, tab, tier, salt, C_=1, N=2, shape=None):
    shape = shape or loss_shape(D, tier)
    return leaf(image(shape, tab, salt, C_=C_, N=N)), leaf(image(shape, tab, salt + 50, C_=C_, N=N) * 0.8 + 0.3)


def _half_mask(D, tier, N=2, C_=1, shape=None):
    shape = shape or loss_shape(D, tier)
    m = torch.zeros((N, 1) + tuple(shape), dtype=torch.float64)
    m[..., : shape[-1] // 2 + 1] = 1
    return m


IMAGE_LOSSES = (
    ("mse_loss", {}), ("ssd_loss", {}), ("mae_loss", {}), ("l1_loss", {}), ("huber_loss", {"delta": 0.4}), ("smooth_l1_loss", {"beta": 0.4}),
    ("ncc_loss", {}), ("lcc_loss", {"kernel_size": 3}), ("lcc_loss", {"kernel_size": 5}), ("wlcc_loss", {"kernel_size": 3}),
    ("mi_loss", {"num_bins": 16}), ("nmi_loss", {"num_bins": 16}), ("mi_loss", {"num_bins": 8, "num_samples": 20}),
)

for _fn, _kw in IMAGE_LOSSES:
    for _mk in (False, True):
        def _b(D, tab, tier, fn=_fn, kw=_kw, mk=_mk):
            L_ = _Lf()
            shape = loss_shape(D, tier)
            if kw.get("kernel_size", 0) > min(shape):
                shape = grid_shape(D, tier)
                if kw["kernel_size"] > min(shape):
                    return None  # window larger than the image: outside the domain
            x, y = _pair(D, tab, tier, 64, shape=shape)
            kw2 = dict(kw)
            if mk:
                kw2["mask"] = _half_mask(D, tier, shape=shape)
            if fn in ("mi_loss", "nmi_loss"):
                kw2.update(vmin=-1.0, vmax=4.0)

            def f():
                if "num_samples" in kw2:
                    torch.manual_seed(7)
                return getattr(L_, fn)(x, y, **kw2)

            return Entry(fn, OrderedDict(source=x, target=y), f)

        _lab = _fn + ("[" + ",".join(f"{k}={v}" for k, v in _kw.items()) + "]" if _kw else "")
        ENTRIES[f"loss/{_lab}/{'mask' if _mk else 'nomask'}"] = (_b, (2, 3))

for _norm in ("float", "tensor"):
    def _b(D, tab, tier, nf=_norm):
        L_ = _Lf()
        x, y = _pair(D, tab, tier, 65)
        nv = 2.5 if nf == "float" else torch.tensor(2.5)
        return Entry("mse_loss", OrderedDict(source=x, target=y), lambda: (L_.mse_loss(x, y, norm=nv, reduction="none"), L_.mae_loss(x, y, norm=nv, mask=_half_mask(D, tier))))

    ENTRIES[f"loss/mse+mae/norm={_norm}"] = (_b, (2, 3))

SEG_LOSSES = (
    ("dice_loss", {}), ("dice_score", {"reduction": "none"}), ("tversky_index", {"alpha": 0.3, "beta": 0.7}), ("tversky_loss", {}),
    ("tversky_index_with_logits", {}), ("tversky_loss_with_logits", {"gamma": 2}), ("balanced_binary_cross_entropy_with_logits", {}),
    ("focal_loss_with_logits", {}),
)

for _fn, _kw in SEG_LOSSES:
    def _b(D, tab, tier, fn=_fn, kw=_kw):
        L_ = _Lf()
        shape = loss_shape(D, tier)
        C_ = 1 if "binary" in fn or "focal" in fn else 2
        logits = fn.endswith("with_logits")
        p = image(shape, tab, 66, C_=C_, N=2) - 1.0
        p = leaf(p * 2 if logits else torch.sigmoid(p * 2))
        t = leaf(torch.sigmoid((image(shape, tab, 67, C_=C_, N=2) - 1.0) * 3))
        return Entry(fn, OrderedDict(input=p, target=t), lambda: getattr(L_, fn)(p, t, **kw))

    ENTRIES[f"loss/{_fn}"] = (_b, (2, 3))


@entry("loss/kld_loss", dims=(2,))
def _(D, tab, tier):
    L_ = _Lf()
    m = leaf(gen((3, 5), tab, 68))
    lv = leaf(gen((3, 5), tab, 69))
    return Entry("kld_loss", OrderedDict(mean=m, logvar=lv), lambda: (L_.kld_loss(m, lv), L_.kld_loss(m, lv, reduction="none")))


@entry("loss/label_smoothing")
def _(D, tab, tier):
    L_ = _Lf()
    shape = loss_shape(D, tier)
    p = leaf(torch.softmax(image(shape, tab, 70, C_=3, N=1), 1))
    return Entry("label_smoothing", OrderedDict(probs=p), lambda: L_.label_smoothing(p, alpha=0.1))


FLOW_LOSSES = (
    ("grad_loss", {"p": 2, "q": 1}), ("grad_loss", {"p": 1, "q": 1}), ("grad_loss", {"p": 2, "q": None}), ("grad_loss", {"p": 3, "q": 0.5}), ("grad_loss", {"p": 0, "q": 0}),
    ("bending_loss", {}), ("bending_loss", {"mode": "forward_central_backward"}), ("bspline_bending_loss", {"stride": 2}), ("curvature_loss", {}),
    ("diffusion_loss", {}), ("divergence_loss", {}), ("elasticity_loss", {"first_parameter": 0.7, "second_parameter": 1.3}),
    ("elasticity_loss", {"material_name": "rubber"}), ("total_variation_loss", {}), ("total_variation_loss", {"mode": "sobel", "spacing": 0.5}),
)

for _fn, _kw in FLOW_LOSSES:
    for _red in ("mean", "none"):
        def _b(D, tab, tier, fn=_fn, kw=_kw, red=_red):
            L_ = _Lf()
            shape = bspline_shape(D, tier) if "bspline" in fn else grid_shape(D, tier, True)
            u = leaf(smooth_field(D, shape, tab, 71, amp=0.4) + 0.1 * gen((1, D) + tuple(shape), tab, 72))
            return Entry(fn, OrderedDict(u=u), lambda: getattr(L_, fn)(u, reduction=red, **kw))

        _lab = _fn + ("[" + ",".join(f"{k}={v}" for k, v in _kw.items()) + "]" if _kw else "")
        ENTRIES[f"loss/{_lab}/reduction={_red}"] = (_b, (2, 3))

for _units in ("cube", "voxel", "world"):
    def _b(D, tab, tier, units=_units):
        L_ = _Lf()
        g = _grid(D, tier, small=True)
        shape = tuple(g.shape)
        u = leaf(smooth_field(D, shape, tab, 73, amp=0.15))
        v = leaf(-smooth_field(D, shape, tab, 73, amp=0.15) + 0.03 * gen((1, D) + shape, tab, 74))
        a = leaf(torch.eye(D, D + 1, dtype=torch.float64).unsqueeze(0) + 0.1 * gen((1, D, D + 1), tab, 75))
        return Entry("inverse_consistency_loss", OrderedDict(forward=u, inverse=v, affine=a), lambda: (L_.inverse_consistency_loss(u, v, grid=g, units=units), L_.inverse_consistency_loss(a, v, grid=g, units=units, margin=1)))

    ENTRIES[f"loss/inverse_consistency_loss/units={_units}"] = (_b, (2, 3))



# ---- similarity losses on images with EXACTLY constant regions (zero background, constant block, constant image) ----
def _const_region_image(tab, salt, variant):
    """(1, 1, 12, 11) image: zero background for rows < 6 or columns < 6 (wider than 2 * 3 - 1), texture elsewhere with
    an exactly constant 2 x 2 block inside; variant 'constant' = the whole image is one value."""
    shape = (12, 11)
    if variant == "constant":
        return torch.full((1, 1) + shape, 0.75, dtype=torch.float64)
    v = image(shape, tab, salt, C_=1, N=1)
    v[..., :6, :] = 0.0
    v[..., :, :6] = 0.0
    v[..., 8:10, 8:10] = 1.5
    return v


CONST_LOSSES = (
    ("lcc_loss", {"kernel_size": 3}), ("wlcc_loss", {"kernel_size": 3}), ("ncc_loss", {}), ("mi_loss", {"num_bins": 16, "vmin": -1.0, "vmax": 4.0}),
    ("nmi_loss", {"num_bins": 16, "vmin": -1.0, "vmax": 4.0}), ("ssd_loss", {}), ("mse_loss", {}), ("mae_loss", {}), ("huber_loss", {"delta": 0.4}),
    ("dice_loss", {}), ("tversky_index", {}), ("tversky_loss", {}),
)

for _fn, _kw in CONST_LOSSES:
    for _var in ("background", "target-constant"):
        def _b(D, tab, tier, fn=_fn, kw=_kw, var=_var):
            L_ = _Lf()
            seg = fn.startswith(("dice", "tversky"))
            x = _const_region_image(tab, 110, "background")
            y = _const_region_image(tab, 111, "background" if var == "background" else "constant")
            if seg:
                x, y = torch.clamp(x / 2.5, 0, 1), torch.clamp(y / 2.5, 0, 1)
            x, y = leaf(x), leaf(y)
            return Entry(fn, OrderedDict(source=x, target=y), lambda: getattr(L_, fn)(x, y, **kw))

        ENTRIES[f"loss-constant-regions/{_fn}/{_var}"] = (_b, (2,))

for _fn, _kw in (("lcc_loss", {"kernel_size": 3}), ("ncc_loss", {}), ("mse_loss", {})):
    def _b(D, tab, tier, fn=_fn, kw=_kw):
        import deepali.spatial as S
        from deepali.core.grid import Grid

        L_ = _Lf()
        g = Grid(shape=(12, 11))
        t = S.Translation(g).double()
        with torch.no_grad():
            t.params.copy_(torch.tensor([[0.031, -0.047]], dtype=torch.float64))
        src = _const_region_image(tab, 112, "background")
        tgt = _const_region_image(tab, 113, "background")
        tr = S.ImageTransformer(t, padding="zeros").double()
        return Entry(fn, _params(t), lambda: getattr(L_, fn)(tr(src), tgt, **kw))

    ENTRIES[f"loss-constant-regions/ImageTransformer(Translation)/{_fn}"] = (_b, (2,))


# ---- every subset of the optional mask / weight arguments x mask dtype form, for the differentiable image losses ------
MASKARG_DFORMS = ("bool", "uint8", "f32", "f32soft", "f64")
MASKARG_LOSSES = (
    ("wlcc_loss", {"kernel_size": 3}, ("mask", "source_mask", "target_mask")),
    ("lcc_loss", {"kernel_size": 3}, ("mask",)), ("ncc_loss", {}, ("mask",)), ("mse_loss", {}, ("mask",)), ("ssd_loss", {}, ("mask",)),
    ("mae_loss", {}, ("mask",)), ("huber_loss", {"delta": 0.4}, ("mask",)), ("smooth_l1_loss", {"beta": 0.4}, ("mask",)),
    ("mi_loss", {"num_bins": 16, "vmin": -1.0, "vmax": 4.0}, ("mask",)), ("nmi_loss", {"num_bins": 16, "vmin": -1.0, "vmax": 4.0}, ("mask",)),
    ("dice_loss", {}, ("weight",)), ("dice_score", {}, ("weight",)), ("tversky_index", {"alpha": 0.3, "beta": 0.7}, ("weight",)), ("tversky_loss", {}, ("weight",)),
)


def _mask_arg(arg, shape, dform, N=2):
    """Mask argument of the given dtype form: distinct 0/1 patterns per argument (their product is a proper subset
    of each), 'f32soft' scales the same support by {0.5, 1}."""
    idx = torch.meshgrid(*[torch.arange(n) for n in shape], indexing="ij")
    if arg in ("mask", "weight"):
        m = idx[-1] < shape[-1] // 2 + 1
    elif arg == "source_mask":
        m = idx[-2] >= 1
    else:
        m = (idx[-1] + idx[-2]) > 0
    m = m.to(torch.float64)
    if dform == "f32soft":
        m = m * (0.5 + 0.5 * (sum(idx) % 2).to(torch.float64))
    # source_mask in the batch-broadcast form (1, 1, ...), the others per item (N, 1, ...): an in-place product written
    # into either operand is then possible shape-wise for one order and a broadcast error for the other
    m = m.expand((N, 1) + tuple(shape)).clone() if arg != "source_mask" else m.reshape((1, 1) + tuple(shape)).clone()
    dt = {"bool": torch.bool, "uint8": torch.uint8, "f32": torch.float32, "f32soft": torch.float32, "f64": torch.float64}[dform]
    return m.to(dt)


def _mk_maskarg_entries():
    import itertools

    for fn, kw, names in MASKARG_LOSSES:
        subsets = [c for r in range(1, len(names) + 1) for c in itertools.combinations(names, r)]
        for sub_ in subsets:
            for df in MASKARG_DFORMS:
                dims = (2, 3) if (fn == "wlcc_loss" and df in ("f32", "f32soft")) else (2,)

                def b(D, tab, tier, fn=fn, kw=kw, sub_=sub_, df=df):
                    L_ = _Lf()
                    shape = loss_shape(D, tier)
                    seg = fn.startswith(("dice", "tversky"))
                    if seg:
                        x = leaf(torch.sigmoid((image(shape, tab, 120, C_=1, N=2) - 1.0) * 2))
                        y = leaf(torch.sigmoid((image(shape, tab, 121, C_=1, N=2) - 1.0) * 3))
                    else:
                        x, y = _pair(D, tab, tier, 122)
                    masks = {a: _mask_arg(a, shape, df) for a in sub_}
                    kw2 = dict(kw)
                    kw2.update(masks)
                    return Entry(fn, OrderedDict(source=x, target=y), lambda: getattr(L_, fn)(x, y, **kw2), bitwise=True)

                lab = fn + ("[" + ",".join(f"{k}={v}" for k, v in kw.items() if k not in ("vmin", "vmax")) + "]" if kw else "")
                ENTRIES[f"loss-maskargs/{lab}/args={'+'.join(sub_)}/dtype={df}"] = (b, dims)
    for sub_ in (("source_mask", "target_mask"), ("mask",), ("mask", "source_mask", "target_mask")):
        for df in ("f32", "f32soft", "bool"):
            def b(D, tab, tier, sub_=sub_, df=df):
                import deepali.losses as LL

                shape = loss_shape(D, tier)
                x, y = _pair(D, tab, tier, 123)
                m = LL.WLCC(kernel_size=3)
                masks = {a: _mask_arg(a, shape, df) for a in sub_}
                return Entry("WLCC", OrderedDict(source=x, target=y), lambda: m(x, y, **masks), bitwise=True)

            ENTRIES[f"loss-maskargs/WLCC-module/args={'+'.join(sub_)}/dtype={df}"] = (b, (2,))


_mk_maskarg_entries()


# ---- memory layout of the differentiated input: non-contiguous leaf / non-contiguous view of a leaf -------------------
LAYOUT_OPS = ("mse_loss", "lcc_loss", "dice_loss", "tversky_index", "grid_sample.data", "grid_sample.grid", "warp_image.flow", "expv", "spatial_derivatives", "evaluate_cubic_bspline", "jacobian_det")
LAYOUT_FORMS = ("noncontiguous-leaf", "transposed-view-of-leaf", "step-sliced-view-of-leaf")


def _layout_input(values, form):
    """-> (leaf to differentiate, tensor handed to the operation); same values as `values`, other strides."""
    v = values.detach().double()
    if form == "noncontiguous-leaf":
        lf = v.transpose(-1, -2).contiguous().transpose(-1, -2).detach().requires_grad_(True)
        assert not lf.is_contiguous() or min(v.shape[-2:]) == 1
        return lf, lf
    if form == "transposed-view-of-leaf":
        lf = v.transpose(-1, -2).contiguous().detach().requires_grad_(True)
        return lf, lf.transpose(-1, -2)
    big = torch.zeros(tuple(v.shape[:-1]) + (2 * v.shape[-1],), dtype=torch.float64)
    big[..., ::2] = v
    big[..., 1::2] = 0.37  # never read by the operation: derivative exactly zero, also by finite differences
    lf = big.detach().requires_grad_(True)
    return lf, lf[..., ::2]


def _mk_layout_entries():
    for op in LAYOUT_OPS:
        for form in LAYOUT_FORMS:
            def b(D, tab, tier, op=op, form=form):
                U = _U()
                L_ = _Lf()
                from deepali.core.grid import Grid

                shape = loss_shape(D, tier)
                if op in ("mse_loss", "lcc_loss"):
                    x0, y = _pair(D, tab, tier, 130)
                    lf, x = _layout_input(x0, form)
                    kw = {"kernel_size": 3} if op == "lcc_loss" else {}
                    return Entry(op, OrderedDict(source=lf), lambda: getattr(L_, op)(x, y.detach(), **kw))
                if op in ("dice_loss", "tversky_index"):
                    p0 = torch.sigmoid((image(shape, tab, 131, C_=2, N=2) - 1.0) * 2)
                    t_ = torch.sigmoid((image(shape, tab, 132, C_=2, N=2) - 1.0) * 3)
                    lf, p_ = _layout_input(p0, form)
                    lt, t2 = _layout_input(t_, form)
                    return Entry(op, OrderedDict(input=lf, target=lt), lambda: getattr(L_, op)(p_, t2))
                gs = grid_shape(D, tier, True)
                if op == "grid_sample.data":
                    lf, img = _layout_input(image(grid_shape(D, tier), tab, 133, C_=2), form)
                    co = gen((1,) + tuple(gs) + (D,), tab, 134, -0.8, 0.8)
                    return Entry(op, OrderedDict(data=lf), lambda: U.grid_sample(img, co))
                if op == "grid_sample.grid":
                    img = image(grid_shape(D, tier), tab, 135, C_=1)
                    # the coordinate axis is last: transpose / slice the two axes before it
                    c0 = gen((1,) + tuple(gs) + (D,), tab, 136, -0.8, 0.8).movedim(-1, 1)
                    lf, c1 = _layout_input(c0, form)
                    return Entry(op, OrderedDict(grid=lf), lambda: U.grid_sample(img, c1.movedim(1, -1)))
                if op == "warp_image.flow":
                    g = Grid(shape=gs)
                    img = image(gs, tab, 137, C_=1)
                    lf, f1 = _layout_input(smooth_field(D, gs, tab, 138, amp=0.12), form)
                    coords = g.coords(dtype=torch.float64).unsqueeze(0)
                    return Entry(op, OrderedDict(flow=lf), lambda: U.warp_image(img, coords, flow=f1.movedim(1, -1)))
                if op == "expv":
                    lf, v = _layout_input(smooth_field(D, gs, tab, 139, amp=0.2), form)
                    return Entry(op, OrderedDict(flow=lf), lambda: U.expv(v, steps=2))
                if op == "jacobian_det":
                    lf, v = _layout_input(smooth_field(D, gs, tab, 140, amp=0.3), form)
                    return Entry(op, OrderedDict(flow=lf), lambda: U.jacobian_det(v))
                if op == "spatial_derivatives":
                    lf, im = _layout_input(image(gs, tab, 141, C_=2), form)
                    return Entry(op, OrderedDict(data=lf), lambda: U.spatial_derivatives(im, order=1, mode="central"))
                if op == "evaluate_cubic_bspline":
                    bs = bspline_shape(D, tier)
                    cp = U.cubic_bspline_control_point_grid_size(tuple(bs), 2)
                    lf, c = _layout_input(gen((1, 2) + tuple(cp), tab, 142), form)
                    return Entry(op, OrderedDict(data=lf), lambda: U.evaluate_cubic_bspline(c, shape=bs, stride=2))
                raise KeyError(op)

            ENTRIES[f"layout/{op}/{form}"] = (b, (2, 3) if op in ("dice_loss", "grid_sample.grid", "expv") else (2,))


_mk_layout_entries()

# loss modules (same menu through the module wrappers)
MODULE_LOSSES = (
    ("Dice", {}, "seg"), ("NCC", {}, "img"), ("LCC", {"kernel_size": 3}, "img"), ("WLCC", {"kernel_size": 3}, "img"), ("L1ImageLoss", {}, "img"),
    ("HuberImageLoss", {"delta": 0.4}, "img"), ("SmoothL1ImageLoss", {"beta": 0.4}, "img"), ("L2ImageLoss", {"norm": 2.0}, "img"), ("SSD", {}, "img"),
    ("MI", {"bins": 16, "vmin": -1.0, "vmax": 4.0}, "img"), ("NMI", {"bins": 16, "vmin": -1.0, "vmax": 4.0}, "img"),
    ("GradLoss", {}, "flow"), ("Bending", {}, "flow"), ("Curvature", {}, "flow"), ("Diffusion", {}, "flow"), ("Divergence", {}, "flow"),
    ("Elasticity", {"first_parameter": 0.7, "second_parameter": 1.3}, "flow"), ("TotalVariation", {}, "flow"), ("BSplineBending", {"stride": 2}, "flow"),
    ("L1Norm", {}, "params"), ("L2Norm", {}, "params"), ("Sparsity", {}, "params"), ("ClosestPointDistance", {}, "points"), ("LandmarkPointDistance", {}, "points"),
)

for _cls, _kw, _kind in MODULE_LOSSES:
    def _b(D, tab, tier, cls=_cls, kw=_kw, kind=_kind):
        import deepali.losses as LL
        import deepali.losses.flow as LFlow

        C_ = getattr(LL, cls, None) or getattr(LFlow, cls)
        m = C_(**kw)
        shape = loss_shape(D, tier)
        if kind == "img":
            x, y = _pair(D, tab, tier, 76)
            mk = _half_mask(D, tier)
            if cls == "NCC":
                return Entry(cls, OrderedDict(source=x, target=y), lambda: m(x, y))
            return Entry(cls, OrderedDict(source=x, target=y), lambda: (m(x, y), m(x, y, mk)))
        if kind == "seg":
            p = leaf(torch.sigmoid((image(shape, tab, 77, C_=2, N=2) - 1.0) * 2))
            t = leaf(torch.sigmoid((image(shape, tab, 78, C_=2, N=2) - 1.0) * 3))
            return Entry(cls, OrderedDict(input=p, target=t), lambda: m(p, t))
        if kind == "flow":
            shape = bspline_shape(D, tier) if cls == "BSplineBending" else grid_shape(D, tier, True)
            u = leaf(smooth_field(D, shape, tab, 79, amp=0.4) + 0.1 * gen((1, D) + tuple(shape), tab, 80))
            return Entry(cls, OrderedDict(u=u), lambda: m(u))
        if kind == "params":
            p = leaf(gen((2, 7), tab, 81))
            return Entry(cls, OrderedDict(params=p), lambda: m(p))
        if kind == "points":
            x = leaf(gen((1, 6, D), tab, 82))
            y = leaf(gen((1, 6, D), tab, 83))
            return Entry(cls, OrderedDict(x=x, y=y), lambda: m(x, y))
        raise KeyError(kind)

    ENTRIES[f"loss-module/{_cls}"] = (_b, (2, 3))


# ---------------------------------------------------------------------------
def _quick_skips_3d(name):
    """Quick tier: the 3-D instance of near-duplicate heavy entries is left to the thorough tier (2-D instance stays)."""
    if name.startswith("core/compose_svfs/bch_terms=") and name[-1] in "02345":
        return True
    if name.startswith("core/logv") or name in ("loss-module/Bending", "loss-module/BSplineBending", "loss-module/Curvature"):
        return True
    if name.startswith("core/evaluate_cubic_bspline/stride=") and name.endswith("transpose=True"):
        return True
    if name.endswith("after-setter/grid_") or (name.endswith("after-setter/data(arg)") and "FFD" in name):
        return True
    if name.startswith("loss/") and name.endswith("/reduction=none") and not name.startswith("loss/grad_loss[p=2,q=1]"):
        return True
    if name.startswith("core/expv/steps=") and name.endswith("ac=F") and "steps=4" not in name:
        return True
    return False


def menu(tier):
    out = []
    for name, (b, dims) in ENTRIES.items():
        for D in dims:
            if tier == "quick" and D == 3 and _quick_skips_3d(name):
                continue
            out.append((name, D))
    return out


def bounds(tier):
    return {
        "entries": len(ENTRIES),
        "entry_x_D": len(menu(tier)),
        "grid_shapes": {"D2": list(grid_shape(2, tier)), "D2_small": list(grid_shape(2, tier, True)), "D3": list(grid_shape(3, tier)), "D3_small": list(grid_shape(3, tier, True))},
        "step_and_rtol": {k: list(v) for k, v in STEP.items()},
        "tables": 1 if tier == "quick" else 2,
        "layout_entries": {"operations": list(LAYOUT_OPS), "forms": list(LAYOUT_FORMS)},
        "mask_argument_entries": {"losses": len(MASKARG_LOSSES), "wlcc_subsets": 7, "dtype_forms": list(MASKARG_DFORMS)},
        "depth": 1,
    }


def shards(tier: str, seed: int):
    tabs = [seed % 4] if tier == "quick" else [seed % 4, (seed + 1) % 4]
    return [{"tier": tier, "entry": name, "D": D, "tab": tab} for tab in tabs for name, D in menu(tier)]


def _record(acc, shard, res):
    name, D, tab, tier = shard["entry"], shard["D"], shard["tab"], shard["tier"]
    case = {"entry": name, "D": D, "tab": tab, "tier": tier}
    acc.trans(res["evals"])
    acc.trace("gradient", n=max(res["coords"], 1), depth=1)
    for iname, j in res["nontriv"]:
        acc.nontriv(name, D, tab, iname, j)
    for iname, st in res["inputs"].items():
        for j in range(st["n"]):
            acc.state(name, D, tab, iname, j)
    for iname, o in res["outcome"]:
        for j, v in enumerate(o):
            acc.outcome(name, D, iname, v)  # distinct normalised derivative values observed for this input
    for u in res["undef"]:
        if isinstance(u, tuple):
            acc.undef(u[0], u[1])
        else:
            acc.undef(u)
    for tail, detail in res["problems"]:
        acc.violation(f"C20/{tail}", case, detail, size=1)
    if res["mode"]:
        acc.info["entries_" + res["mode"]] = acc.info.get("entries_" + res["mode"], 0) + 1
    if len(acc.samples) < 1 and res["inputs"]:
        acc.sample({"case": case, "mode": res["mode"], "inputs": res["inputs"]})


def run_shard(shard) -> Acc:
    acc = Acc()
    res = check_entry(shard["entry"], shard["D"], shard["tab"], shard["tier"])
    _record(acc, shard, res)
    return acc


def replay(case):
    res = check_entry(case["entry"], case["D"], case["tab"], case["tier"])
    return [(f"C20/{tail}", detail) for tail, detail in res["problems"]]
