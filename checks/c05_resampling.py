"""C05 - resampling onto any oriented grid matches an independent reference resampler.

Enumerated (complete product, no sampling):
    source grid (12 per D; the small ones carry ALL unit impulses, i.e. the full sampling operator)
  x target menu {identity, shift, fine, coarse, size, perm90, rot20, flip, partial}
    + grids DERIVED by the library's own Grid methods, i.e. with a fractional internal size: target = source.downsample(),
      .resample(0.65 x spacing), .downsample().pad(1), .resample(..).crop(1); source grids = .resample(0.65 x spacing)
      with target = shift / .downsample()  (headers of the oracle = what the real Grid objects report)
  x (source align_corners, target align_corners) in {T,F}^2
  x interpolation {linear, nearest} x padding {zeros, border, constant c as float -3.5, int 7, negative int -12,
    numpy.float64 2.5, 0-d tensor -1.5}
  x API / batch forms {Image.sample(grid), ImageBatch.sample(grid | [grids]) with N=1, N=2 shared grid, N=2 per-image
    grids, sample(coords), SampleImage, AlignImage(None), TransformImage(None),
    functional core.image.grid_sample / sample_image on plain tensors}; the three module APIs additionally
    with every explicit `axes` value (grid, world, cube, cube_corners), the target points being handed in those axes
Memory layout (sub-check 'layout', reduced menu of 16 configurations x all API forms x 3 paddings): the image data
(Image / ImageBatch / functional / module input) and the explicit coordinate tensors (sample(coords), grid_sample,
sample_image, SampleImage grid points) handed over as transposed view, step-sliced view and - for batch-invariant
operands - stride-0 expanded batch; oracle = result of the contiguous form (differential), operands unchanged.
Every sampling call is executed twice on the same receiver / input objects: the inputs must be bit-identical before
and after the call (signature .../input-mutated) and the two results must be bit-identical (.../repeat-call).

Oracle: SimpleITK's resampler (identity transform, same headers) at every target sample whose continuous source
index lies in [0, n-1]^D; outside it the own numpy interpolator (ref/interp.py) with the documented padding
semantics (separate signature '.../padding'); the two oracles must agree inside the field of view (else the
harness is broken -> exit 2). Also: sampling on the own grid returns the data unchanged (bit-identical);
sample(coords) == sample(grid).
"""
from __future__ import annotations

import itertools

import numpy as np
import torch

from mc.core import Acc, exc_text, guarded, h64
from ref import grid as rg
from ref import interp as ri
from ref.grid import RefGrid
from ref import layout as rl

# imported here (not lazily) so that the freshly forked shard processes inherit the loaded modules (~1 s per process)
import deepali.data  # noqa: F401,E402
import deepali.core.enum  # noqa: F401,E402
import SimpleITK  # noqa: F401,E402
import deepali.modules  # noqa: F401,E402

PROPERTY = "C05"
RULE = (
    "complete product source grid x target menu (9 constructed + 6 derived by Grid.downsample/resample/pad/crop with fractional "
    "internal size, on target and on source side) x (source, target) align_corners x interpolation x padding (zeros, border, "
    "constant as float / int / negative int / numpy.float64 / 0-d tensor) x API/batch (methods, modules, functional) "
    "form (module APIs also x explicit axes in {grid, world, cube, cube_corners}), every call executed twice on the same "
    "objects (inputs fingerprinted before/after, results bit-identical), executed on the real code and compared sample by sample with SimpleITK (inside the source field of view) and "
    "an own float64 interpolator (padding region); distinct = exact bits of the returned tensor; non-trivial = target "
    "differs from the source grid and at least 25% of its samples lie inside the source field of view; layout: on a reduced "
    "menu (2 sources x 2 targets x 2 flag pairs per D, all API forms, 3 paddings) image data and coordinate tensors as "
    "transposed / step-sliced / stride-0 expanded views must give the result of the contiguous form and stay unchanged"
)
EXPLANATION = "exhaustive product of resampling configurations against ITK's resampler and a float64 reference interpolator"
ASSUMPTIONS = [
    "trusted base: SimpleITK ResampleImageFilter with identity transform, and ref/interp.py (they are cross-checked against each other inside the field of view on every configuration)",
    "headers are the float32 grid attributes of the real Grid objects read as float64 ('the same headers')",
    "tolerance 64 * 2^-23 * range * (1 + K), K = |origin|/min spacing + size of source and target (float32 coordinate "
    "conditioning times the largest intensity step per voxel); a half-sample error gives 0.5 * range on impulse images",
    "nearest neighbour: samples within 1e-3 of a tie are not judged; samples within 1e-3 outside the boundary of the field of view are not judged (knife-edge rule)",
    "impulse images on sources with <= 12 voxels recover the whole sampling operator (linearity), other sources carry an integer pattern in [0, 100]",
]
# measured (quick): 221760 configurations, 18289 distinct result tensors, 173768 non-trivial; thorough = 3 x the sources
MIN_NONTRIVIAL = {"quick": 85000, "thorough": 200000}
MIN_OUTCOMES = {"quick": 9000, "thorough": 20000}
MIN_SUB_TRACES = {"fov": 110000, "own-grid": 1100, "coords": 13000, "padding": 50000, "input-fingerprint": 110000, "repeat-call": 110000, "layout": 2500}

EPS32 = 2.0 ** -23
CTOL = 64.0
CONST_PAD = -3.5
TARGETS = ["identity", "shift", "fine", "coarse", "size", "perm90", "rot20", "flip", "partial"]
# grids DERIVED by Grid methods (fractional internal size): d_* = target derived from the source grid object,
# sf_* = the SOURCE grids themselves are derived (resample to a non-dividing spacing), target from them
TARGETS += ["d_down", "d_resamp", "d_down_pad", "d_resamp_crop", "sf_shift", "sf_down"]
MODES = ["linear", "nearest"]
# constant padding c in every scalar form the signature admits (Scalar = int | float | Tensor; numpy.float64 is a float)
PAD_VALUES = {"const": -3.5, "int": 7, "negint": -12, "npfloat": 2.5, "tensor0d": -1.5}
PADDINGS = ["zeros", "border", "const", "int", "negint", "npfloat", "tensor0d"]
FORMS = [
    # (api, batch form)
    ("Image.sample(grid)", "N1"),
    ("ImageBatch.sample(grid)", "N1"),
    ("ImageBatch.sample(grid)", "N2shared"),
    ("ImageBatch.sample(grids)", "N2shared"),
    ("ImageBatch.sample(grid)", "N2own"),
    ("ImageBatch.sample(grids)", "N2own"),
    ("Image.sample(coords)", "N1"),
    ("ImageBatch.sample(coords)", "N1"),
    ("ImageBatch.sample(coords)", "N2shared"),
    ("ImageBatch.sample(coords)", "N2own"),
    ("SampleImage", "N1"),
    ("SampleImage", "N2shared"),
    ("AlignImage", "N1"),
    ("AlignImage", "N2shared"),
    ("TransformImage", "N1"),
    ("TransformImage", "N2shared"),
    # functional API (plain tensors, normalised coordinates of the source cube)
    ("U.grid_sample", "N1"),
    ("U.grid_sample", "N2shared"),
    ("U.grid_sample", "N2own"),
    ("U.sample_image", "N1"),
    ("U.sample_image", "N2own"),
]
# module APIs with an explicit `axes` argument: every Axes value, target points handed in those axes
MODULE_AXES = ["grid", "world", "cube", "cube_corners"]
FORMS += [(f"{m}(axes={ax})", "N1") for m in ("SampleImage", "AlignImage", "TransformImage") for ax in MODULE_AXES]


# ---------------------------------------------------------------------------
def source_specs(D: int, tier: str, seed: int):
    dirs = rg.direction_menu(D, seed)
    if D == 2:
        sizes = [(3, 4), (4, 3), (6, 5), (9, 7)]
        sps = [(1.0, 1.0), (0.5, 1.25)]
        orgs = [(0.0, 0.0), (10.5, -3.25)]
    else:
        sizes = [(2, 3, 2), (3, 2, 2), (4, 5, 3), (6, 4, 5)]
        sps = [(1.0, 1.0, 1.0), (0.5, 1.25, 2.0)]
        orgs = [(0.0, 0.0, 0.0), (10.5, -3.25, 6.125)]
    names = ("id", "perm", "rot")
    out = []
    for k in range(12):
        spec = {
            "size": list(sizes[k % 4]),
            "spacing": list(sps[(k // 2 + k // 6) % 2]),
            "origin": list(orgs[(k + k // 4) % 2]),
            "direction": dirs[names[k % 3]],
            "dir": names[k % 3],
            "k": k,
        }
        out.append(spec)
    if tier == "quick":
        out = [out[i] for i in (0, 5, 7, 10)]  # sizes 0,1,3,2 ; dirs id, rot, perm, perm ; both spacings/origins
    return out


def second_source(r: RefGrid, seed: int) -> RefGrid:
    """Per-image grid of the second batch item: same size, other position / orientation / spacing."""
    out = r.copy()
    D = r.D
    Q = rg.rot2((15.0, -12.0, 22.0, -18.0)[seed % 4]) if D == 2 else rg.rot3(*((0.2, -0.15, 0.25), (-0.2, 0.1, 0.3), (0.15, 0.25, -0.1), (0.3, -0.2, 0.1))[seed % 4])
    out.R = Q @ r.R
    out.c = r.c + r.R @ (r.s * np.array([1.3, -0.8, 0.6][:D]))
    out.s = r.s * np.array([1.25, 0.8, 1.0][:D])
    return out


def target_of(r: RefGrid, name: str, ac: bool) -> RefGrid:
    D = r.D
    t = r.copy()
    t.z = r.n.copy()
    t.ac = ac
    if name == "identity":
        return t
    if name == "shift":
        t.c = r.c + r.R @ (r.s * np.array([0.37, -0.21, 0.45][:D]))
    elif name == "fine":
        t.z = 2 * r.n - 1
        t.s = r.s / 2
    elif name == "coarse":
        t.s = r.s * 1.5
        t.z = np.maximum(np.ceil(r.n / 1.5), 2)
    elif name == "size":
        t.z = np.maximum(r.n + np.array([2, -1, 1][:D]), 2)
        t.s = r.s * (r.n - 1) / (t.z - 1)
    elif name == "perm90":
        if D == 2:
            P = np.array([[0.0, -1.0], [1.0, 0.0]])
            perm = [1, 0]
        else:
            P = np.array([[0.0, 0.0, 1.0], [-1.0, 0.0, 0.0], [0.0, -1.0, 0.0]])
            perm = [1, 2, 0]
        # new axis a runs along old axis perm[a] (sign from P); same sample set
        t.R = r.R @ P
        t.z = r.n[perm].copy()
        t.s = r.s[perm].copy()
    elif name == "rot20":
        Q = rg.rot2(20.0) if D == 2 else rg.rot3(0.25, -0.2, 0.3)
        t.R = Q @ r.R
    elif name == "flip":
        F = np.eye(D)
        F[0, 0] = -1.0
        t.R = r.R @ F
    elif name == "partial":
        t.c = r.c + r.R @ (r.s * r.n * np.array([0.4, -0.3, 0.35][:D]))
    else:
        raise KeyError(name)
    return t


def derived_target(g, name: str):
    """Target grid derived from the live source Grid object by the library's own Grid methods (fractional sizes)."""
    if name in ("d_down", "sf_down"):
        return g.downsample(1, min_size=2)
    if name == "d_resamp":
        return g.resample(tuple((g.spacing() * 0.65).tolist()))
    if name == "d_down_pad":
        return g.downsample(1, min_size=2).pad(1)
    if name == "d_resamp_crop":
        return g.resample(tuple((g.spacing() * 0.65).tolist())).crop(1)
    raise KeyError(name)


def real_grid_of(r: RefGrid):
    from deepali.core.grid import Grid

    return Grid(size=tuple(int(v) for v in r.n), spacing=tuple(r.s.tolist()), center=tuple(r.c.tolist()), direction=r.R.tolist(), align_corners=r.ac)


def content(n, item: int) -> np.ndarray:
    """Image content (C, *shape): all unit impulses for <= 12 voxels, else an integer pattern in [0, 100]."""
    n = [int(v) for v in n]
    shape = tuple(n[::-1])
    nv = int(np.prod(n))
    if nv <= 12:
        a = np.eye(nv, dtype=np.float64).reshape((nv,) + shape)
        if item == 1:
            a = 2.0 * a[::-1].copy()
        return a
    idx = ri.grid_indices(n)
    w = np.array([7.0, 13.0, 29.0][: len(n)])
    c0 = np.mod(idx @ w + 17 * item, 101)
    c1 = 50.0 * np.mod(idx.sum(axis=1) + item, 2) + idx[:, 0]
    return np.stack([c0, c1]).reshape((2,) + shape)


# ---------------------------------------------------------------------------
# oracles
def itk_resample(src_arr: np.ndarray, src: RefGrid, tgt: RefGrid, mode: str) -> np.ndarray:
    import SimpleITK as sitk

    if sitk.ProcessObject.GetGlobalDefaultNumberOfThreads() != 1:
        sitk.ProcessObject.SetGlobalDefaultNumberOfThreads(1)  # tiny images: the thread pool costs 100x the work
    D = src.D
    C = src_arr.shape[0]
    arr = np.ascontiguousarray(np.moveaxis(src_arr, 0, -1))
    img = sitk.GetImageFromArray(arr[..., 0].copy()) if C == 1 else sitk.GetImageFromArray(arr, isVector=True)
    img.SetOrigin([float(v) for v in src.origin])
    img.SetSpacing([float(v) for v in src.s])
    img.SetDirection([float(v) for v in src.R.reshape(-1)])
    interp = sitk.sitkLinear if mode == "linear" else sitk.sitkNearestNeighbor
    out = sitk.Resample(
        img,
        [int(v) for v in tgt.n],
        sitk.Transform(D, sitk.sitkIdentity),
        interp,
        [float(v) for v in tgt.origin],
        [float(v) for v in tgt.s],
        [float(v) for v in tgt.R.reshape(-1)],
        0.0,
        img.GetPixelID(),
    )
    a = sitk.GetArrayFromImage(out).astype(np.float64)
    if C == 1:
        a = a[..., None]
    return np.moveaxis(a, -1, 0)


class Ctx:
    """Everything of one (D, source, target name, src ac, tgt ac) configuration."""

    def __init__(self, D, spec, tname, sac, tac, seed):
        self.D, self.spec, self.tname, self.sac, self.tac, self.seed = D, spec, tname, sac, tac, seed
        s = dict(spec)
        s["ac"] = sac
        r0 = rg.ref_grid(s)
        r1 = second_source(r0, seed)
        r1.ac = sac
        self.src_real = [rg.real_grid(s), real_grid_of(r1)]
        if tname.startswith("sf_"):
            # source grids with a fractional internal size, produced by the library's own derivation
            self.src_real = [g.resample(tuple((g.spacing() * 0.65).tolist())) for g in self.src_real]
        self.src = [RefGrid.from_real(g) for g in self.src_real]  # headers as the real objects carry them
        if tname == "identity":
            # 'its own grid' = the grid objects of the images (other flag when tac != sac)
            self.tgt_real = [g if tac == sac else g.align_corners(tac) for g in self.src_real]
        elif tname.startswith("d_") or tname == "sf_down":
            self.tgt_real = [derived_target(g, tname).align_corners(tac) for g in self.src_real]
        elif tname == "sf_shift":
            self.tgt_real = [real_grid_of(target_of(r, "shift", tac)) for r in self.src]
        else:
            t0, t1 = target_of(r0, tname, tac), target_of(r1, tname, tac)
            self.tgt_real = [real_grid_of(t0), real_grid_of(t1)]
        self.tgt = [RefGrid.from_real(g) for g in self.tgt_real]
        if self.tgt[0].n.min() < 2 or not np.array_equal(self.tgt[0].n, self.tgt[1].n) or not np.array_equal(self.src[0].n, self.src[1].n):
            raise AssertionError(f"harness: derived grids outside the domain ({tname}: {self.tgt[0].n}, {self.tgt[1].n})")
        self.data = [content(self.src[0].n, 0), content(self.src[0].n, 1)]
        self.range = float(max(np.abs(d).max() for d in self.data))
        self._cache = {}

    def pts(self, si: int, ti: int) -> np.ndarray:
        """continuous source index (of source grid si) of every sample of target grid ti"""
        key = ("pts", si, ti)
        if key not in self._cache:
            t, s = self.tgt[ti], self.src[si]
            self._cache[key] = s.world_to_index(t.index_to_world(ri.grid_indices(t.n)))
        return self._cache[key]

    def expected(self, content_i: int, si: int, ti: int, mode: str, padding: str):
        """(expected (C, M), inside (M,), judged_inside (M,), judged_pad (M,)) for image content_i on source grid si
        sampled at target grid ti."""
        key = ("exp", content_i, si, ti, mode, padding)
        if key in self._cache:
            return self._cache[key]
        s, t = self.src[si], self.tgt[ti]
        pts = self.pts(si, ti)
        inside = ri.inside_fov(pts, s.n, 1e-6)
        undef = ri.knife_edge(pts, s.n, 1e-6, 1e-3)
        if mode == "nearest":
            undef = undef | ri.near_tie(pts, 1e-3)
        kpad = padding if padding in ("zeros", "border") else "constant"
        own = ri.interp(self.data[content_i], pts, mode, kpad, float(PAD_VALUES.get(padding, 0.0)))
        ikey = ("itk", content_i, si, ti, mode)
        if ikey not in self._cache:
            self._cache[ikey] = itk_resample(self.data[content_i], s, t, mode).reshape(own.shape[0], -1)
        itk = self._cache[ikey]
        ji = inside & ~undef
        if ji.any():
            # inside the field of view every padding semantics coincides; the cross-check uses the clamped (border)
            # evaluation so that a sample a float32 rounding (<= 1e-6) outside the hull is not blended with the padding
            bkey = ("own-border", content_i, si, ti, mode)
            if bkey not in self._cache:
                self._cache[bkey] = ri.interp(self.data[content_i], pts, mode, "border", 0.0)
            dis = np.abs(itk[:, ji] - self._cache[bkey][:, ji]).max()
            if dis > 1e-6 * max(self.range, 1.0):
                raise AssertionError(f"harness: ITK and the own interpolator disagree inside the field of view by {dis:.3e} ({self.tname}, {mode})")
        exp = np.where(inside[None, :], itk, own)
        res = (exp, inside, ji, (~inside) & ~undef)
        self._cache[key] = res
        return res

    def tol(self, si: int, ti: int, padding: str = "zeros") -> float:
        s, t = self.src[si], self.tgt[ti]
        K = max(np.abs(s.origin).max() / s.s.min() + s.n.max(), np.abs(t.origin).max() / t.s.min() + t.n.max())
        rng = max(self.range, abs(float(PAD_VALUES.get(padding, 0.0))))  # blending with the constant c near the boundary
        return CTOL * EPS32 * rng * (1.0 + K)


def cube_coords(s: RefGrid, pts: np.ndarray, ac: bool) -> np.ndarray:
    """normalised coordinates of continuous indices pts w.r.t. grid s (documented cube conventions)"""
    n = s.n
    return 2 * pts / (n - 1) - 1 if ac else (2 * pts + 1) / n - 1


# ---------------------------------------------------------------------------
def padding_arg(p: str):
    """The padding argument in the scalar FORM named by p (same numeric meaning: extrapolate with the constant)."""
    if p in ("zeros", "border"):
        return p
    v = PAD_VALUES[p]
    if p == "npfloat":
        return np.float64(v)
    if p == "tensor0d":
        return torch.tensor(v)
    return v  # python float / int / negative int


def _fingerprint(tensors) -> bytes:
    return b"|".join(str(t.dtype).encode() + str(tuple(t.shape)).encode() + t.detach().contiguous().numpy().tobytes() for t in tensors)


class NotApplicable(Exception):
    pass


def prepare(ctx: Ctx, api: str, bform: str, mode: str, padding: str, layout=None):
    """layout = (argument, form): the named user tensor ('data' = image data, 'coords' = explicit coordinates / module
    grid points) is handed over in the memory layout `form` of ref/layout.py (same values).
    Build fresh inputs and the receiver of one API form. Returns (plan, do, inputs): plan = [(content item,
    source idx, target idx)] per output item, do() = one sampling call on the SAME receiver / input objects returning
    a tensor (N, C, *shape), inputs = every tensor handed to deepali (for the before/after fingerprint)."""
    from deepali.core.grid import Axes
    from deepali.data import Image, ImageBatch
    from deepali.modules import AlignImage, SampleImage, TransformImage

    D = ctx.D
    if bform == "N1":
        plan = [(0, 0, 0)]
    elif bform == "N2shared":
        plan = [(0, 0, 0), (1, 0, 0)]
    else:  # N2own: per-image source grids
        plan = [(0, 0, 0), (1, 1, 0 if api.endswith("(grid)") else 1)]
    t32 = [torch.from_numpy(d.astype(np.float32)) for d in ctx.data]
    pad = padding_arg(padding)
    tshape = lambda ti: tuple(int(v) for v in ctx.tgt[ti].n[::-1])  # noqa: E731
    used = []

    def lay(which, t, batch=False):
        """t in the requested layout if `which` is the selected argument (batch=True: leading dim is a batch of 2
        equal items, eligible for the stride-0 'expanded' form)."""
        if layout is None or layout[0] != which:
            return t
        form = layout[1]
        used.append(which)
        if form in ("expanded", "repeat"):
            if not batch:
                raise NotApplicable(form)
            return rl.relayout(t[0], form, n=2)
        if not rl.applicable(t, form):
            raise NotApplicable(form)
        return rl.relayout(t, form)

    def done(ret):
        if layout is not None and not used:
            raise NotApplicable("argument not taken by this form")
        return ret

    expanded = layout is not None and layout[1] in ("expanded", "repeat")
    if expanded and layout[0] == "data" and bform == "N2shared":
        plan = [(0, 0, 0), (0, 0, 0)]  # stride-0 batch: both items are the same image
    if api.startswith("Image."):
        t32[0] = lay("data", t32[0])
        im = Image(t32[0], ctx.src_real[0])
        if api == "Image.sample(grid)":
            return done((plan, (lambda: im.sample(ctx.tgt_real[0], mode=mode, padding=pad).tensor().unsqueeze(0)), [t32[0], im.tensor()]))
        co = cube_coords(ctx.src[0], ctx.pts(0, 0), ctx.sac).reshape(tshape(0) + (D,))
        cot = lay("coords", torch.from_numpy(co.astype(np.float32)))
        return done((plan, (lambda: im.sample(cot, mode=mode, padding=pad).unsqueeze(0)), [t32[0], im.tensor(), cot]))
    grids = [ctx.src_real[p[1]] for p in plan]
    data = lay("data", torch.stack([t32[p[0]] for p in plan]), batch=(bform == "N2shared"))

    def coords_tensor():
        cos = [cube_coords(ctx.src[si], ctx.pts(si, ti), ctx.sac).reshape(tshape(ti) + (D,)) for _, si, ti in plan]
        if bform == "N2shared":
            if expanded and layout[0] == "coords":
                return lay("coords", torch.from_numpy(np.stack(cos[:1] * 2).astype(np.float32)), batch=True)  # (2, ..., D), stride 0
            cos = cos[:1]  # (1, ..., D) broadcast to both images
        return torch.from_numpy(np.stack(cos).astype(np.float32))

    if api.startswith("ImageBatch."):
        b = ImageBatch(data, grids)
        if api == "ImageBatch.sample(grid)":
            return done((plan, (lambda: b.sample(ctx.tgt_real[0], mode=mode, padding=pad).tensor()), [data, b.tensor()]))
        if api == "ImageBatch.sample(grids)":
            tg = [ctx.tgt_real[p[2]] for p in plan]
            return done((plan, (lambda: b.sample(tg, mode=mode, padding=pad).tensor()), [data, b.tensor()]))
        cot = coords_tensor()
        if not (expanded and layout[0] == "coords"):
            cot = lay("coords", cot)
        return done((plan, (lambda: b.sample(cot, mode=mode, padding=pad)), [data, b.tensor(), cot]))
    if api.startswith("U."):
        from deepali.core import image as UI

        cot = coords_tensor()
        if api == "U.grid_sample":
            if not (expanded and layout[0] == "coords"):
                cot = lay("coords", cot)
            return done((plan, (lambda: UI.grid_sample(data, cot, mode=mode, padding=pad, align_corners=ctx.sac)), [data, cot]))
        flat = cot.reshape(cot.shape[0], -1, D)  # (N, M, D): an arbitrary point set
        if expanded and layout[0] == "coords":
            if bform != "N2shared":
                raise NotApplicable("expanded")
            flat = rl.relayout(flat[0].contiguous(), layout[1], n=2)
        else:
            flat = lay("coords", flat)
        return done((plan, (lambda: UI.sample_image(data, flat, mode=mode, padding=pad, align_corners=ctx.sac).reshape(
            (data.shape[0], data.shape[1]) + tshape(plan[0][2]))), [data, flat]))
    base, _, rest = api.partition("(axes=")
    axes = rest[:-1] if rest else None
    cls = {"SampleImage": SampleImage, "AlignImage": AlignImage, "TransformImage": TransformImage}[base]
    kw = {} if axes is None else {"axes": Axes(axes)}
    mod = cls(ctx.tgt_real[0], ctx.src_real[0], sampling=mode, padding=pad, **kw)
    if base == "SampleImage":
        if axes is None:
            pts_t = ctx.tgt_real[0].coords()
        else:
            # target sample points expressed in the requested axes by the reference (float64 -> float32)
            t = ctx.tgt[0]
            p = t.map_points(ri.grid_indices(t.n), rg.GRID, axes).reshape(tshape(0) + (D,))
            pts_t = torch.from_numpy(p.astype(np.float32))
        pts_t = lay("coords", pts_t.clone())
        return done((plan, (lambda: mod(pts_t, data)), [data, pts_t]))
    return done((plan, (lambda: mod(None, data)), [data]))


def run_form(ctx: Ctx, api: str, bform: str, mode: str, padding: str, repeat: bool = True):
    """Execute one API form. Returns (status, value, plan, extra): value = numpy (N, C, *shape) float64 or the
    exception; extra = {"mutated": bool, "repeat": None | str} from the input fingerprint and the repeated call."""
    status, prep = guarded(prepare, ctx, api, bform, mode, padding)
    if status == "raises":
        return status, prep, [(0, 0, 0)], None
    plan, do, inputs = prep
    fp0 = _fingerprint(inputs)
    status, val = guarded(do)
    if status == "raises":
        return status, val, plan, None
    extra = {"mutated": _fingerprint(inputs) != fp0, "repeat": None}
    first = val.detach().clone()
    if repeat:
        st2, val2 = guarded(do)
        if st2 == "raises":
            extra["repeat"] = "second call raises " + exc_text(val2)
        elif val2.shape != first.shape or not torch.equal(val2.detach(), first):
            d = float((val2.detach().double() - first.double()).abs().max()) if val2.shape == first.shape else float("nan")
            extra["repeat"] = f"second call on the same object differs from the first by {d:.4g}"
    return status, first.numpy().astype(np.float64), plan, extra


def judge_form(ctx: Ctx, api, bform, mode, padding, acc: Acc = None):
    """Returns list of (kind, detail); updates counters of acc when given."""
    out = []
    status, val, plan, extra = run_form(ctx, api, bform, mode, padding)
    if acc is not None:
        acc.trans(2)
    if status == "raises":
        return [("raises=" + type(val).__name__, exc_text(val))], None
    if acc is not None:
        acc.subs["input-fingerprint"] += 1
        acc.subs["repeat-call"] += 1
    if extra["mutated"]:
        out.append(("input-mutated", "the caller's image / coordinate tensors were modified in place by the sampling call"))
    if extra["repeat"]:
        out.append(("repeat-call", extra["repeat"]))
    N = len(plan)
    exp_shape = lambda ti: tuple(int(v) for v in ctx.tgt[ti].n[::-1])  # noqa: E731
    C = ctx.data[0].shape[0]
    if val.shape != (N, C) + exp_shape(plan[0][2]):
        return [("shape", f"result shape {val.shape} expected {(N, C) + exp_shape(plan[0][2])}")], None
    own_grid = (
        ctx.tname == "identity"
        and api in ("Image.sample(grid)", "ImageBatch.sample(grid)", "ImageBatch.sample(grids)")
        and not (bform == "N2own" and api.endswith("(grid)"))  # there the second image has another grid: it is resampled
    )
    if own_grid:
        # sampling on the own grid(s) returns the image unchanged
        if acc is not None:
            acc.subs["own-grid"] += 1
        for i, (ci, si, ti) in enumerate(plan):
            src32 = ctx.data[ci].astype(np.float32).astype(np.float64)
            if not np.array_equal(val[i], src32):
                out.append(("own-grid", f"item {i}: sampling on the own grid changed {int((val[i] != src32).sum())} values (max {np.abs(val[i] - src32).max():.3e})"))
    nin = 0
    ntot = 0
    for i, (ci, si, ti) in enumerate(plan):
        exp, inside, ji, jp = ctx.expected(ci, si, ti, mode, padding)
        tol = ctx.tol(si, ti, padding)
        v = val[i].reshape(C, -1)
        err = np.abs(v - exp)
        nin += int(ji.sum())
        ntot += len(ji)
        if ji.any():
            e = err[:, ji]
            if not np.all(e <= tol):
                nb = int((~(e <= tol)).any(axis=0).sum())
                out.append(("fov", f"item {i}: differs from ITK inside the field of view by {np.nanmax(e):.4g} > tol {tol:.2e} on {nb}/{int(ji.sum())} samples"))
        if jp.any():
            e = err[:, jp]
            if not np.all(e <= tol):
                nb = int((~(e <= tol)).any(axis=0).sum())
                out.append(("padding", f"item {i}: differs from the documented padding semantics outside the field of view by {np.nanmax(e):.4g} > tol {tol:.2e} on {nb}/{int(jp.sum())} samples"))
        if acc is not None:
            nu = int(len(ji) - ji.sum() - jp.sum())
            if nu:
                acc.undef("nearest-tie-or-knife-edge-sample" if mode == "nearest" else "knife-edge-sample", nu)
            acc.info["samples_judged_inside_fov"] = acc.info.get("samples_judged_inside_fov", 0) + int(ji.sum())
            acc.info["samples_judged_padding_region"] = acc.info.get("samples_judged_padding_region", 0) + int(jp.sum())
    if acc is not None:
        acc.trace("fov")
        if any(ctx.expected(ci, si, ti, mode, padding)[3].any() for ci, si, ti in plan):
            acc.subs["padding"] += 1
    return out, (val, nin, ntot)


def coords_vs_grid(ctx: Ctx, bform, mode, padding, val_coords):
    """sample(coords) == sample(grid the coords came from) (relational clause of the statement)."""
    api = "ImageBatch.sample(grids)" if bform != "N1" else "ImageBatch.sample(grid)"
    status, val, plan, _ = run_form(ctx, api, bform, mode, padding, repeat=False)
    if status == "raises":
        return []  # reported by the grid form itself
    if val.shape != val_coords.shape:
        return [("coords-vs-grid", f"shapes differ: {val_coords.shape} vs {val.shape}")]
    out = []
    for i, (ci, si, ti) in enumerate(plan):
        tol = 2 * ctx.tol(si, ti, padding)
        pts = ctx.pts(si, ti)
        ok = ~ri.knife_edge(pts, ctx.src[si].n, 1e-6, 1e-3)
        if mode == "nearest":
            ok &= ~ri.near_tie(pts, 1e-3)
        C = val.shape[1]
        e = np.abs(val[i].reshape(C, -1) - val_coords[i].reshape(C, -1))[:, ok]
        if e.size and not np.all(e <= tol):
            out.append(("coords-vs-grid", f"item {i}: sample(coords) and sample(grid) differ by {np.nanmax(e):.4g} > {tol:.2e}"))
    return out


# ---------------------------------------------------------------------------
# memory layout of user-supplied tensors (reduced sub-menu)
LAYOUT_FORMS = ["transposed", "sliced", "expanded"]
LAYOUT_ARGS = ["data", "coords"]
LAYOUT_PADDINGS = ["zeros", "border", "const"]


def _fp_versions(tensors):
    out = []
    for t in tensors:
        b = t._base if t._base is not None else t
        out.append((t._version, b._version, t.detach().contiguous().numpy().tobytes(), b.detach().contiguous().numpy().tobytes()))
    return out


def judge_layout(ctx: Ctx, api, bform, mode, padding, arg, form):
    """The named argument in layout `form` vs the contiguous form (same values): no exception, equal result (derived
    tolerance; bit identity is counted), arguments unchanged (bits and _version of the view and of its base).
    Returns (problems, status) with status in {'n/a', 'ok', 'bitwise'}."""
    ref_form = "repeat" if form == "expanded" else "contig"
    s0, p0 = guarded(prepare, ctx, api, bform, mode, padding, (arg, ref_form))
    if s0 == "raises":
        if isinstance(p0, NotApplicable):
            return [], "n/a"
        raise p0
    s1, p1 = guarded(prepare, ctx, api, bform, mode, padding, (arg, form))
    if s1 == "raises":
        if isinstance(p1, NotApplicable):
            return [], "n/a"
        return [("raises=" + type(p1).__name__, "constructing the receiver: " + exc_text(p1))], "ok"
    plan, do0, _ = p0
    _, do1, inputs = p1
    r0s, v0 = guarded(do0)
    if r0s == "raises":
        return [], "n/a"  # reported by the main product
    fp = _fp_versions(inputs)
    r1s, v1 = guarded(do1)
    out = []
    if _fp_versions(inputs) != fp:
        out.append(("operand-mutated", f"the {arg} tensor ({form}) or its base buffer was modified (bits or _version)"))
    if r1s == "raises":
        out.append(("raises=" + type(v1).__name__, exc_text(v1)))
        return out, "ok"
    if tuple(v1.shape) != tuple(v0.shape):
        out.append(("shape", f"{tuple(v1.shape)} vs contiguous {tuple(v0.shape)}"))
        return out, "ok"
    a, b = v1.detach().double().numpy(), v0.detach().double().numpy()
    tol = max(ctx.tol(si, ti, padding) for _, si, ti in plan)
    d = np.abs(a - b)
    if not np.all(d <= tol):
        out.append(("value", f"result differs from the contiguous form by {np.nanmax(d):.4g} > tol {tol:.2e}"))
    return out, ("bitwise" if torch.equal(v1.detach(), v0.detach()) else "ok")


def layout_sig(api, bform, tname, mode, padding, sac, tac, arg, form, kind):
    return f"C05/layout/{api}/{bform}/target={tname}/mode={mode}/padding={padding}/ac={'T' if sac else 'F'}{'T' if tac else 'F'}/arg={arg}/layout={form}/{kind}"


def layout_shards(tier, seed):
    out = []
    for D in (2, 3):
        for k in (0, 2):  # an impulse source and a pattern source
            for tname in ("rot20", "coarse"):
                for sac, tac in ((True, True), (False, True)):
                    out.append({"tier": tier, "seed": seed, "D": D, "src": k, "target": tname, "sac": sac, "tac": tac, "layout": True})
    return out


def run_layout_shard(acc: Acc, shard, ctx: Ctx, spec):
    for api, bform in FORMS:
        for padding in LAYOUT_PADDINGS:
            for arg in LAYOUT_ARGS:
                for form in LAYOUT_FORMS:
                    mode = "linear" if padding != "border" else "nearest"
                    probs, status = judge_layout(ctx, api, bform, mode, padding, arg, form)
                    if status == "n/a":
                        continue
                    acc.trans(2)
                    acc.trace("layout")
                    acc.info["layout_bit_identical"] = acc.info.get("layout_bit_identical", 0) + (1 if status == "bitwise" else 0)
                    case = {"D": ctx.D, "spec": spec, "target": shard["target"], "sac": shard["sac"], "tac": shard["tac"], "seed": shard["seed"],
                            "mode": mode, "padding": padding, "api": api, "bform": bform, "layout": {"arg": arg, "form": form}}
                    for kind, detail in probs:
                        acc.violation(layout_sig(api, bform, shard["target"], mode, padding, shard["sac"], shard["tac"], arg, form, kind), case, detail, size=1)
                    acc.outcome("layout", api, bform, padding, arg, form, probs[0][0] if probs else status)
                    if not probs:
                        acc.nontriv("layout", ctx.D, spec["k"], shard["target"], shard["sac"], api, bform, padding, arg, form)


def sig_of(api, bform, tname, mode, padding, sac, tac, kind):
    return f"C05/{api}/{bform}/target={tname}/mode={mode}/padding={padding}/ac={'T' if sac else 'F'}{'T' if tac else 'F'}/{kind}"


def bounds(tier):
    return {
        "sources_per_D": len(source_specs(2, tier, 0)),
        "targets": len(TARGETS),
        "align_corners_pairs": 4,
        "modes": len(MODES),
        "paddings": len(PADDINGS),
        "api_batch_forms": len(FORMS),
        "layout": {"forms": LAYOUT_FORMS, "arguments": LAYOUT_ARGS, "paddings": LAYOUT_PADDINGS, "configurations": len(layout_shards(tier, 0))},
        "configurations": 2 * len(source_specs(2, tier, 0)) * len(TARGETS) * 4 * len(MODES) * len(PADDINGS) * len(FORMS),
    }


def shards(tier: str, seed: int):
    out = []
    for D in (2, 3):
        for k in range(len(source_specs(D, tier, seed))):
            for tname in TARGETS:
                for sac in (True, False):
                    for tac in (True, False):
                        out.append({"tier": tier, "seed": seed, "D": D, "src": k, "target": tname, "sac": sac, "tac": tac})
    return out + layout_shards(tier, seed)


def run_shard(shard) -> Acc:
    acc = Acc()
    D, seed = shard["D"], shard["seed"]
    spec = source_specs(D, shard["tier"], seed)[shard["src"]]
    ctx = Ctx(D, spec, shard["target"], shard["sac"], shard["tac"], seed)
    if shard.get("layout"):
        acc.state("layout-cfg", D, spec["k"], shard["target"], shard["sac"], shard["tac"])
        run_layout_shard(acc, shard, ctx, spec)
        return acc
    acc.state("cfg", D, spec["k"], shard["target"], shard["sac"], shard["tac"])
    for mode in MODES:
        for padding in PADDINGS:
            for api, bform in FORMS:
                case = {"D": D, "spec": spec, "target": shard["target"], "sac": shard["sac"], "tac": shard["tac"], "seed": seed,
                        "mode": mode, "padding": padding, "api": api, "bform": bform}
                res = judge_form(ctx, api, bform, mode, padding, acc)
                probs, extra = res
                if extra is not None and "coords" in api:
                    acc.subs["coords"] += 1
                    probs = probs + coords_vs_grid(ctx, bform, mode, padding, extra[0])
                    acc.trans()
                for kind, detail in probs:
                    acc.violation(sig_of(api, bform, shard["target"], mode, padding, shard["sac"], shard["tac"], kind), case, detail, size=1)
                if extra is None:
                    acc.outcome("problem", api, bform, probs[0][0] if probs else "")
                    continue
                val, nin, ntot = extra
                acc.outcome(val.astype(np.float32).tobytes(), val.shape)
                if shard["target"] != "identity" and nin >= 0.25 * ntot and float(np.ptp(val)) > 0:
                    acc.nontriv(D, spec["k"], shard["target"], shard["sac"], shard["tac"], mode, padding, api, bform)
                if len(acc.samples) < 1 and shard["target"] == "rot20":
                    acc.sample({"case": case, "samples_inside_fov": nin, "samples_total": ntot})
    return acc


def replay(case):
    ctx = Ctx(case["D"], case["spec"], case["target"], case["sac"], case["tac"], case["seed"])
    if "layout" in case:
        h = case["layout"]
        probs, _ = judge_layout(ctx, case["api"], case["bform"], case["mode"], case["padding"], h["arg"], h["form"])
        return [(layout_sig(case["api"], case["bform"], case["target"], case["mode"], case["padding"], case["sac"], case["tac"], h["arg"], h["form"], kind), detail)
                for kind, detail in probs]
    probs, extra = judge_form(ctx, case["api"], case["bform"], case["mode"], case["padding"], None)
    if extra is not None and "coords" in case["api"]:
        probs = probs + coords_vs_grid(ctx, case["bform"], case["mode"], case["padding"], extra[0])
    return [(sig_of(case["api"], case["bform"], case["target"], case["mode"], case["padding"], case["sac"], case["tac"], kind), detail) for kind, detail in probs]
