"""C09 - a transform evaluates its current parameters, grid and conditioning, never a stale snapshot.

Transition system
    state     live transform `t`, at most one inverse `inv`, at most one accessor/link copy `cp`, and at most one object
              `d2` derived from `inv` or `cp` (derivation depth 2: inverse of inverse, copy of inverse, inverse / copy /
              link of copy) + reference records kept in lock step (parameters, grid, conditioning, sign, link relation)
    alphabet  set_data(v1|v2), in-place edits (no_grad add_, .data add_/mul_/copy_, SGD step), grid_(g) for a grid menu,
              condition_(c), reset_parameters, update, clear_buffers, inverse(link=F|T, update_buffers=F|T) and .inv,
              accessor copies data(p)/grid(g)/condition(c), link, unlink, the derivations of d2, and the observers
              call / disp() / disp(g') / forward() and "access .inv and evaluate it" on every live object
    search    breadth first over histories, a history is expanded only if the canonical state key
              (structure + exact tensor bits + aliasing of the real objects, plus the reference record)
              is new; every state is rebuilt by replaying its history on fresh objects
    oracle    float64 numpy denotation of the *current* reference record (ref/transform_state.py);
              re-gridding must preserve that denotation
"""
from __future__ import annotations

import numpy as np
import torch

from mc.core import Acc, exc_text, guarded, h64, tensor_bytes
from ref import grid as rgm
from ref import transform_state as ts
from ref.grid import RefGrid

PROPERTY = "C09"
RULE = (
    "every history of the per-class alphabet (state-changing calls; creators of inverse / copies / linked objects, also "
    "from derived objects up to derivation depth 2; observers on every live object incl. evaluation of its .inv) up to the "
    "tier depth, breadth first with exact state dedup; every history is executed on fresh real objects; an observer "
    "step is judged against the float64 denotation of the reference record unless the documentation exempts it "
    "(counted under undefined_by_reference); distinct state = structure + tensor bits + aliasing + every other "
    "instance attribute of the real objects + reference record; non-trivial = judged observation whose expected map moves a probe by > 1e-3 world units"
)
EXPLANATION = (
    "bounded explicit-state exploration of histories over a transform and the objects derived from it (inverse, copies, links, "
    "their inverses/copies, .inv of each) against float64 reference records"
)
ASSUMPTIONS = [
    "a freshly evaluated numpy re-implementation of the documented semantics (multilinear interpolation, cubic B-spline "
    "evaluation, scaling and squaring) is the denotation; it agrees with fresh deepali objects to 1e-7 cube units",
    "tolerance 64 ulp(float32) x cube->world scale (about 3e-5 world units; x4 for integrated velocity fields); stale or lost state moves probes by >= 3e-2 world units",
    "disp() after an in-place edit without update(), on an inverse/linked copy before its first update, and of an unlinked "
    "inverse/copy after the original's parameter tensor was replaced are not judged (docs require update() / leave it open)",
    "an object linked to another one is judged only while the parameters it reads from that object (tensor, refreshed "
    "prediction, or in-sync buffer p of a linked parent) are the ones the parent denotes; uninitialised buffers never enter a hash",
    "CPU, float32, one transform per batch (N = 1), D = 2 (quick) and D in {2, 3} (thorough)",
]
MIN_NONTRIVIAL = {"quick": 800, "thorough": 3500}
MIN_OUTCOMES = {"quick": 300, "thorough": 1100}
MIN_SUB_TRACES = {"call": 200, "disp": 200, "regrid": 50, "create": 100, "mutate": 200, "invcall": 100}

EPS32 = 2.0 ** -23
TOL_ULPS = 64.0

DEPTH = {"quick": 3, "thorough": 4}  # full alphabet (thorough: depth 4 on four configurations, 3 elsewhere)
DEEP_DEPTH = 5  # thorough: core alphabet on five configurations


# ---------------------------------------------------------------------------
# configurations
def configs(tier: str, seed: int):
    out = []
    th = tier == "thorough"

    def add(cls, kind, ac=True, D=2, family="affine", direction="rot", depth=3, alpha="full"):
        out.append({"cls": cls, "kind": kind, "ac": ac, "D": D, "family": family, "dir": direction,
                    "seed": seed % 4, "depth": depth, "alpha": alpha, "lean": not th})

    # quick: every class/kind at depth 3 with the full alphabet; thorough: the same list, four of them one level deeper
    add("ddf", "param", True, depth=4 if th else 3)
    add("ddf", "buffer", False)
    add("ddf", "callable", True)
    add("svf", "param", False)
    add("svf", "buffer", True)
    add("ffd", "param", depth=4 if th else 3)
    add("ffd", "buffer")
    add("svffd", "param")
    add("lin", "callable", True, depth=4 if th else 3)
    add("lin", "param", False)
    add("seq", "param", True)
    add("gen", "callable", True, depth=4 if th else 3)
    add("gen", "param", True)
    add("svf", "callable", True)
    add("seq2", "buffer", True)
    if th:
        # other flag / orientation / parameter kind
        add("ddf", "param", False, direction="perm")
        add("ddf", "buffer", True, direction="id")
        add("ddf", "callable", False)
        add("svf", "param", True, direction="perm")
        add("svf", "buffer", False, direction="id")
        add("svffd", "buffer")
        add("lin", "callable", False, direction="perm")
        add("lin", "buffer", True)
        add("seq", "buffer", False)
        add("gen", "buffer", False)
        add("gen", "callable", False, direction="id")
        add("seq2", "param", False)
        # smooth (non-affine) fields: re-gridding judged with the interpolation bound
        for cls in ("ddf", "svf", "ffd", "svffd"):
            add(cls, "param", True, family="smooth")
        add("ddf", "buffer", False, family="smooth")
        # three dimensions
        for cls in ("ddf", "svf", "ffd", "svffd"):
            add(cls, "param", True, D=3)
        # histories of depth 5 over the core alphabet of the buffered classes
        add("ddf", "param", True, direction="id", depth=DEEP_DEPTH, alpha="core")
        add("svf", "buffer", True, direction="perm", depth=DEEP_DEPTH, alpha="core")
        add("ffd", "param", True, direction="id", depth=DEEP_DEPTH, alpha="core")
        add("lin", "callable", True, direction="id", depth=DEEP_DEPTH, alpha="core")
        add("ddf", "callable", True, direction="perm", depth=DEEP_DEPTH, alpha="core")
    return out


# ---------------------------------------------------------------------------
# fixtures of one configuration: grids, fields, probes, predictor tables
SEED_TABLE = (
    {"M": (0.040, -0.025, 0.018, 0.035), "t": (0.10, -0.12), "phi": 0.4},
    {"M": (-0.030, 0.038, 0.026, -0.020), "t": (-0.09, 0.11), "phi": 1.1},
    {"M": (0.022, 0.030, -0.036, 0.028), "t": (0.12, 0.07), "phi": 2.3},
    {"M": (-0.035, -0.018, 0.024, 0.040), "t": (-0.11, -0.08), "phi": 0.9},
)


class Fixtures:
    def __init__(self, cfg):
        self.cfg = cfg
        D = cfg["D"]
        self.D = D
        dirs = rgm.direction_menu(D, cfg["seed"])
        direction = dirs[cfg["dir"]]
        if D == 2:
            size, sp, org = [9, 7], [0.5, 1.25], [10.5, -3.25]
            cs, csp, coff = [5, 4], [0.6, 1.5], [0.2, -0.3]
            ds, dsp, doff = [4, 5], [0.45, 0.8], [-0.1, 0.2]
            loc = [(-0.45, -0.9), (0.4, -0.3), (-0.2, 0.55), (0.13, 0.21), (0.37, -1.05), (-0.31, 0.47)]
        else:
            size, sp, org = [6, 5, 4], [0.5, 1.25, 2.0], [10.5, -3.25, 100.0]
            cs, csp, coff = [4, 3, 3], [0.55, 1.4, 1.7], [0.1, -0.2, 0.15]
            ds, dsp, doff = [3, 4, 3], [0.4, 0.6, 0.9], [-0.05, 0.1, -0.1]
            loc = [(-0.3, -0.6, -0.5), (0.3, -0.2, 0.4), (-0.1, 0.5, 0.2), (0.1, 0.2, -0.7), (0.25, -0.7, 0.1), (-0.2, 0.3, 0.6)]
        g0 = RefGrid(size, sp, origin=org, direction=direction, ac=cfg["ac"])
        R = g0.R
        self.base = g0
        G = {"g0": g0}
        G["gA"] = rgm.resized(g0, 2 * g0.n - 1)
        zx = g0.n.copy()
        zx[0] = 2 * zx[0] - 1
        G["gAx"] = rgm.resized(g0, zx)
        gB = g0.copy()
        gB.ac = not g0.ac
        G["gB"] = gB
        G["gC"] = RefGrid(cs, csp, center=g0.c + R @ np.array(coff), direction=R, ac=g0.ac)
        self.dsize = ds
        self.G = G
        self._real = {}
        self._pcache = {}
        self.probes = g0.c + np.array(loc) @ R.T
        self.stride = (2,) * D
        tab = SEED_TABLE[cfg["seed"]]
        M = np.zeros((D, D))
        M[:2, :2] = np.array(tab["M"]).reshape(2, 2)
        t = np.zeros(D)
        t[:2] = tab["t"]
        if D == 3:
            M[2, 0], M[0, 2], M[2, 2] = 0.015, -0.02, 0.03
            t[2] = 0.15
        smooth = cfg["family"] == "smooth"

        def waves(j):
            if not smooth:
                return ()
            k = np.zeros(D)
            k[:2] = ((0.55, 0.25), (-0.3, 0.5), (0.4, -0.35))[j]
            d = np.zeros(D)
            d[:2] = ((1.0, 0.5), (0.4, -1.0), (-0.7, 0.7))[j]
            return ((0.12, d, k, tab["phi"] + j),)

        x0 = g0.c
        self.F = {
            0: ts.Field(0.5 * M.T, -0.8 * t, x0, waves(2)),
            1: ts.Field(M, t, x0, waves(0)),
            2: ts.Field(-0.8 * M.T + 0.01 * np.eye(D), np.roll(t, 1) * -1.3 + 0.05, x0, waves(1)),
            "E": ts.Field(0.6 * M[::-1, ::-1], 0.9 * t[::-1], x0, ()),
        }
        # linear members of composites: independent small affine fields
        self.L = {
            0: ts.Field(0.3 * M, 0.5 * t, x0),
            1: ts.Field(-0.5 * M.T, -0.7 * t, x0),
            2: ts.Field(0.6 * M[::-1, ::-1], 0.4 * np.roll(t, 1), x0),
        }
        self.S = {0: 1.0 + 0.04 * np.arange(1, D + 1), 1: 1.0 - 0.03 * np.arange(1, D + 1), 2: 1.0 + 0.05 * np.arange(D, 0, -1)}
        self.C = {"c0": ((), {}), "c1": ((1,), {}), "c2": ((2,), {}), "c3": ((1,), {"scale": 0.5})}

    def target(self, gkey: str) -> str:
        """Key of the target grid of disp(g'): the grid the transform holds, resampled to another size (same cube domain and
        flag). Targets with another domain or flag exercise the frame conversion of flow(grid), which is property C06."""
        key = "gD@" + gkey
        if key not in self.G:
            self.G[key] = rgm.resized(self.G[gkey], np.array(self.dsize, dtype=np.float64))
        return key

    def real(self, key):
        g = self._real.get(key)
        if g is None:
            r = self.G[key]
            spec = {"size": [int(v) for v in r.n], "spacing": r.s.tolist(), "center": r.c.tolist(),
                    "direction": r.R.tolist(), "ac": r.ac}
            g = rgm.real_grid(spec)
            self._real[key] = g
        return g

    # -- parameter arrays (float32) of the analytic fields for a member on a grid ---------------
    def params(self, mtype: str, k, gkey: str) -> np.ndarray:
        key = (mtype, k, gkey)
        hit = self._pcache.get(key)
        if hit is None:
            hit = self._pcache[key] = self._params(mtype, k, gkey)
        return hit.copy()

    def _params(self, mtype: str, k, gkey: str) -> np.ndarray:
        rg = self.G[gkey]
        if mtype in ts.DENSE_TYPES:
            return ts.dense_params(self.F[k], rg)
        if mtype in ts.SPLINE_TYPES:
            return ts.spline_params(self.F[k], rg, self.stride)
        if mtype == "trans":
            return ts.linear_params(self.L[k] if self.cfg["cls"] in ("seq", "seq2", "gen") else self.F[k], rg, "trans")
        if mtype == "hom":
            return ts.linear_params(self.L[k], rg, "hom")
        if mtype == "scale":
            return np.asarray(self.S[k], dtype=np.float32).reshape(1, self.D)
        raise KeyError(mtype)

    def default(self, mtype: str, shape) -> np.ndarray:
        if mtype == "scale":
            return np.ones(shape, dtype=np.float32)
        if mtype == "hom":
            a = np.zeros(shape, dtype=np.float32)
            a[0, :, : self.D] = np.eye(self.D)
            return a
        return np.zeros(shape, dtype=np.float32)

    def set_acc(self, mtype: str, k, gkey: str) -> float:
        """World-space bound of |represented field - analytic field| right after set_data (spline quasi-interpolation)."""
        f = self.F[k]
        if mtype in ts.SPLINE_TYPES and f.waves:
            h = self.G[gkey].s * np.asarray(self.stride)
            return 2.0 * f.curvature() * float(np.sum(h * h)) / 6.0
        return 0.0


MEMBERS = {
    "ddf": [("self", "ddf")],
    "svf": [("self", "svf")],
    "ffd": [("self", "ffd")],
    "svffd": [("self", "svffd")],
    "lin": [("self", "trans")],
    "seq": [("0", "ddf"), ("1", "hom")],
    "seq2": [("0", "svf"), ("1", "svf")],  # two stationary velocity members
    "gen": [("nonrigid", "svf"), ("scaling", "scale"), ("translation", "trans")],  # "Affine o SVF", affine "TS"
}
GEN_STEPS = 6  # TransformConfig default


class Pred(torch.nn.Module):
    """Stand-in for a network predicting transformation parameters from the conditioning arguments."""

    def __init__(self, table, as_dict, config=None):
        super().__init__()
        self.table = table
        self.as_dict = as_dict
        if config is not None:
            self.config = config

    def forward(self, sel=0, scale=1.0):
        out = {name: torch.tensor(a) * scale for name, a in self.table[int(sel)].items()}
        return out if self.as_dict else out["self"]


def pred_table(fx: Fixtures):
    cls = fx.cfg["cls"]
    return {k: {name: fx.params(mt, k, "g0") for name, mt in MEMBERS[cls]} for k in (0, 1, 2)}


def pred_ref(fx: Fixtures, cond, name) -> np.ndarray:
    args, kwargs = cond
    sel = int(args[0]) if args else int(kwargs.get("sel", 0))
    scale = np.float32(kwargs.get("scale", 1.0))
    return (pred_table_cached(fx)[sel][name] * scale).astype(np.float32)


def pred_table_cached(fx):
    t = getattr(fx, "_ptab", None)
    if t is None:
        t = fx._ptab = pred_table(fx)
    return t


# ---------------------------------------------------------------------------
# reference records
SLOTS = ("t", "inv", "cp", "d2")  # original, its inverse, its copy, one object derived from inv or cp (derivation depth 2)


class Box:
    """Holder of one parameter tensor value; shared between records whose real objects share the tensor."""

    __slots__ = ("a",)

    def __init__(self, a):
        self.a = None if a is None else np.array(a, dtype=np.float32)


class Mem:
    __slots__ = ("name", "type", "box", "grid", "invert", "pk")

    def __init__(self, name, mtype, box, grid, invert=False, pk="buffer"):
        self.name, self.type, self.box, self.grid, self.invert, self.pk = name, mtype, box, grid, invert, pk

    def clone(self, share_box=True):
        return Mem(self.name, self.type, self.box if share_box else Box(self.box.a if self.box else None), self.grid, self.invert, self.pk)


class Rec:
    def __init__(self, cls, kind, mems, grid, cond):
        self.cls, self.kind, self.mems, self.grid, self.cond = cls, kind, mems, grid, cond
        self.disp_ok = kind != "callable"
        self.p_fresh = kind != "callable"
        self.valid = None  # (2, D) box in the local frame of the base grid
        self.acc = 0.0  # world-space bound of the accumulated re-gridding error (smooth fields)
        self.curv = 0.0  # bound of the second derivatives of the analytic field (world units)
        self.mode = "self"  # self | own | shared | linked | alias | none
        self.since = "init"  # the operation after which disp() of this object is defined
        self.dead = ""  # reason why the object is no longer judged
        self.parent = "t"  # the object this one was derived from / is linked to
        self.synced = True  # linked objects: buffer p equals the parameters the parent evaluates now

    def describe(self):
        return (self.cls, self.kind, self.grid, repr(self.cond), self.disp_ok, self.p_fresh, self.mode, self.dead, self.parent, self.synced,
                None if self.valid is None else np.round(self.valid, 6).tobytes(), round(self.acc, 9), round(self.curv, 9),
                [(m.name, m.type, m.grid, m.invert, m.pk, None if m.box is None or m.box.a is None else m.box.a.tobytes()) for m in self.mems])


# ---------------------------------------------------------------------------
# the world: real objects + records
class World:
    def __init__(self, fx: Fixtures):
        self.fx = fx
        cfg = fx.cfg
        self.cls, self.kind = cfg["cls"], cfg["kind"]
        self.obj = {w: None for w in SLOTS}
        self.rec = {w: None for w in SLOTS}
        self.last_mut = "init"
        # whether update() ran on the object since it was created: until then a predicted-parameter buffer `p` may be
        # uninitialised memory (torch.empty in ParametricTransform.__init__ / link_), which must never enter a hash
        self.upd = {w: False for w in SLOTS}
        self.build()

    # -- construction ------------------------------------------------------
    def build(self):
        import deepali.spatial as S
        from deepali.spatial.generic import GenericSpatialTransform, TransformConfig

        fx, cls, kind = self.fx, self.cls, self.kind
        G0 = fx.real("g0")

        def arg(a):
            if kind == "param":
                return torch.nn.Parameter(torch.tensor(a))
            return torch.tensor(a)

        mems = []
        for name, mt in MEMBERS[cls]:
            m = Mem(name, mt, None, "g0", False, kind)
            a = None if kind == "callable" else fx.params(mt, self.fidx(m, 1), "g0")
            m.box = Box(a) if a is not None else None
            mems.append(m)
        single = {"ddf": S.DisplacementFieldTransform, "svf": S.StationaryVelocityFieldTransform,
                  "ffd": S.FreeFormDeformation, "svffd": S.StationaryVelocityFreeFormDeformation, "lin": S.Translation}
        if cls in single:
            kw = {"stride": fx.stride[0]} if cls in ("ffd", "svffd") else {}
            p = Pred(pred_table_cached(fx), False) if kind == "callable" else arg(mems[0].box.a)
            t = single[cls](G0, params=p, **kw)
        elif cls == "seq":
            ddf = S.DisplacementFieldTransform(G0, params=arg(mems[0].box.a))
            hom = S.HomogeneousTransform(G0, params=arg(mems[1].box.a))
            t = S.SequentialTransform(G0, ddf, hom)
        elif cls == "seq2":
            t = S.SequentialTransform(G0, S.StationaryVelocityFieldTransform(G0, params=arg(mems[0].box.a)),
                                      S.StationaryVelocityFieldTransform(G0, params=arg(mems[1].box.a)))
        elif cls == "gen":
            config = TransformConfig(transform="Affine o SVF", affine_model="TS")
            if kind == "callable":
                t = GenericSpatialTransform(G0, params=Pred(pred_table_cached(fx), True), config=config)
            else:
                t = GenericSpatialTransform(G0, params=(kind == "param"), config=config)
                for m in mems:
                    t[m.name].data_(torch.tensor(m.box.a))
        else:
            raise KeyError(cls)
        self.obj["t"] = t
        r = Rec(cls, kind, mems, "g0", fx.C["c0"])
        r.valid = ts.hull_box(fx.base, fx.G["g0"])
        if kind != "callable":
            r.curv = fx.F[1].curvature()
            r.acc = fx.set_acc(mems[0].type, 1, "g0")
        else:
            r.curv = max(fx.F[k].curvature() for k in (0, 1, 2))
            r.acc = max(fx.set_acc(mems[0].type, k, "g0") for k in (0, 1, 2))
        self.rec["t"] = r

    def fidx(self, m, k):
        if self.cls == "seq2" and m.name == "1" and k in (0, 1, 2):
            return {0: 1, 1: 2, 2: 0}[k]
        return k

    def member_obj(self, o, name):
        return o if name == "self" else o[name]

    # -- effective members for the denotation -------------------------------
    def data_ok(self, r) -> bool:
        """Whether data() of the object of record r returns the parameters r denotes now (what an object linked to it reads):
        tensors always; predicted parameters only after update(); a linked object only while its buffer p is in sync."""
        if r is None or r.dead or r.mode == "none":
            return False
        if r.mode == "linked":
            return bool(r.synced)
        return r.kind != "callable" or bool(r.p_fresh)

    def resolve(self, r):
        """-> ({member name: (parameter array, parameter kind)}, "") or (None, reason)"""
        fx = self.fx
        if r is None:
            return None, "absent"
        if r.dead:
            return None, "dead:" + r.dead
        if r.mode == "none":
            return None, "no-parameters"
        if r.mode == "linked":
            P = self.rec.get(r.parent)
            if P is None:
                return None, "absent-parent"
            if P.dead:
                return None, "dead:" + P.dead
            if not self.data_ok(P):
                return None, "linked-to-unrefreshed-prediction" if P.mode != "linked" else "linked-to-unsynchronised-link"
            return self.resolve(P)
        if r.kind == "callable":
            return {m.name: (pred_ref(fx, r.cond, m.name), m.pk) for m in r.mems}, ""
        return {m.name: (m.box.a, m.pk) for m in r.mems}, ""

    def eff(self, who):
        """-> (list of member dicts, RefGrid, Rec) or (None, reason, Rec); `who` is a slot name or a record"""
        fx = self.fx
        r = self.rec[who] if isinstance(who, str) else who
        if r is None:
            return None, "absent", r
        pars, why = self.resolve(r)
        if pars is None:
            return None, why, r
        out = []
        for m in r.mems:
            a, pk = pars[m.name]
            d = {"type": m.type, "p": a, "grid": fx.G[m.grid], "invert": m.invert, "pk": pk,
                 "steps": GEN_STEPS if self.cls == "gen" else 5, "stride": fx.stride}
            if m.type not in ts.LINEAR_TYPES:
                exp_shape = self.data_shape(m.type, m.grid)
                if tuple(a.shape) != exp_shape:
                    return None, "parameter-shape-does-not-fit-grid", r
            out.append(d)
        return out, fx.G[r.grid], r

    def data_shape(self, mtype, gkey):
        rg = self.fx.G[gkey]
        if mtype in ts.SPLINE_TYPES:
            return (1, rg.D) + ts.tensor_shape(ts.control_size(rg.n, self.fx.stride))
        if mtype in ts.DENSE_TYPES:
            return (1, rg.D) + ts.tensor_shape(rg.n)
        if mtype == "hom":
            return (1, rg.D, rg.D + 1)
        return (1, rg.D)

    def tol_world(self, rg: RefGrid) -> float:
        A, _ = ts.frame(rg)
        return TOL_ULPS * EPS32 * float(np.abs(A).sum(axis=1).max())


# ---------------------------------------------------------------------------
# alphabet
def core_alphabet(cfg):
    """Reduced alphabet of the depth-5 configurations: one form per mechanism."""
    cls, kind = cfg["cls"], cfg["kind"]
    ops = []
    A = ops.append
    if kind != "callable":
        A(["set_data", 2])
        A(["edit", None])
        A(["edit", "data.add_"])
        if kind == "param":
            A(["edit", "sgd"])
        A(["grid_", "gA"])
        A(["grid_", "gAx" if cls in ("ffd", "svffd") else "gB"])
        A(["condition_", "c1"])
    else:
        A(["condition_", "c1"])
        A(["condition_", "c2"])
        A(["grid_", "gB"])
    A(["reset", None])
    A(["update", "t"])
    A(["clear", None])
    if cls in ("svf", "svffd", "lin"):
        A(["inverse", "TF"])
        A(["call", "inv"])
    if kind == "callable":
        A(["copy_cond", "c2"])
    else:
        A(["copy_data", 2])
    A(["call", "cp"])
    A(["call", "t"])
    A(["disp", "t"])
    if cls in ("svf", "svffd", "lin"):
        A(["invcall", "t"])
        A(["invcall", "inv"])
    return ops


def alphabet(cfg):
    if cfg.get("alpha") == "core":
        return core_alphabet(cfg)
    cls, kind = cfg["cls"], cfg["kind"]
    tensor_kind = kind != "callable"
    single = cls in ("ddf", "svf", "ffd", "svffd", "lin")
    ops = []
    A = ops.append
    lean = bool(cfg.get("lean"))  # quick tier: one form of the operations that differ only in a value
    if tensor_kind:
        if not lean:
            A(["set_data", 1])
        A(["set_data", 2])
        A(["edit", None])
        # in-place edits written through `.data` (do not bump the version counter of the parameter) and a real optimiser step
        A(["edit", "data.add_"])
        A(["edit", "data.mul_"])
        A(["edit", "data.copy_"])
        if kind == "param":
            A(["edit", "sgd"])
    if cls in ("ddf", "svf"):
        grids = ["gA", "gB", "gC", "g0"] if tensor_kind else ["gB", "g0"]
    elif cls in ("ffd", "svffd"):
        grids = ["gA", "gAx"] if tensor_kind else []
    elif cls == "lin":
        grids = ["gA", "gB", "gC", "g0"]
    else:
        grids = ["gA", "g0"]
    for g in grids:
        A(["grid_", g])
    if not (lean and tensor_kind):
        A(["condition_", "c1"])
    if not tensor_kind:
        A(["condition_", "c2"])
    A(["condition_", "c3"])
    A(["reset", None])
    A(["update", "t"])
    A(["clear", None])
    if cls in INVERTIBLE:
        for form in INVERSE_FORMS:
            A(["inverse", form])
    if single:
        A(["copy_data", 2])
    if grids:
        A(["copy_grid", grids[0]])
        if "gB" in grids and grids[0] != "gB":
            A(["copy_grid", "gB"])
    A(["copy_cond", "c3" if tensor_kind else "c2"])
    if single:
        A(["link", None])
        A(["unlink", None])
    for who in ("t", "inv", "cp"):
        if who == "inv" and cls not in INVERTIBLE:
            continue
        A(["call", who])
        A(["disp", who])
    A(["dispg", "t"])
    # derivation depth 2 (slot d2): inverse of the inverse, copy of the inverse, inverse / copy / link of the copy
    if cls in INVERTIBLE:
        A(["derive", ["inv", "FF"]])
        A(["derive", ["inv", "TT"]])
        A(["derive", ["inv", "cond"]])
        A(["derive", ["cp", "FF"]])
    A(["derive", ["cp", "cond"]])
    if single:
        A(["derive", ["cp", "link"]])
    A(["call", "d2"])
    A(["disp", "d2"])
    if cls in INVERTIBLE:
        # `.inv` of every live object, evaluated at once
        for who in SLOTS:
            A(["invcall", who])
    if cls in INVERTIBLE:
        # an inverse made with update_buffers=True is documented to be usable without update(): observed right away also
        # through disp(g') and forward() (no pre-forward hook)
        A(["dispg", "inv"])
        A(["fwd", "inv"])
    return ops


OBSERVERS = ("call", "disp", "dispg", "fwd", "invcall")
INVERTIBLE = ("svf", "svffd", "lin", "gen", "seq2")
# make-inverse forms: link / update_buffers flags ("TF" = link=True, update_buffers=False), "inv" = the .inv property
INVERSE_FORMS = ("FF", "TF", "FT", "TT", "inv")
NO_ORACLE_OPS = ("set_data", "edit", "reset", "clear", "update")
CREATORS = ("inverse", "copy_data", "copy_grid", "copy_cond", "link", "unlink", "derive")


def op_form(op):
    name, arg = op
    if name in ("grid_", "copy_grid", "condition_", "copy_cond"):
        return f"{name}({arg})"
    if name == "inverse":
        return ".inv" if arg == "inv" else f"inverse(link={arg[0]},update_buffers={arg[1]})"
    if name == "edit":
        return "edit" if arg is None else f"edit({arg})"
    if name == "derive":
        what = {"FF": "inverse(link=F,update_buffers=F)", "TT": "inverse(link=T,update_buffers=T)", "cond": "condition(c)", "link": "link"}[arg[1]]
        return f"{what}@{arg[0]}"
    if name in OBSERVERS or name == "update":
        return f"{name}@{arg}"
    return name


def bounds(tier):
    cf = configs(tier, 0)
    return {
        "configurations": len(cf),
        "classes": sorted({c["cls"] + "-" + c["kind"] for c in cf}),
        "alphabet_sizes": sorted({len(alphabet(c)) for c in cf}),
        "depth_full_alphabet": sorted({c["depth"] for c in cf if c["alpha"] == "full"}),
        "depth_core_alphabet": sorted({c["depth"] for c in cf if c["alpha"] == "core"}),
        "core_alphabet_sizes": sorted({len(alphabet(c)) for c in cf if c["alpha"] == "core"}),
        "last_level": "quick: set_data/edit/reset/clear/update are not run as the last step of a maximal history (no oracle beyond 'does not raise'); thorough: all ops at every level" if tier == "quick" else "all ops at every level, except in the depth-4 full-alphabet configurations, whose last level omits set_data/edit/reset/clear/update",
        "live_objects": "t, inv, cp, d2 (d2 derived from inv or cp: derivation depth 2)",
        "probes_per_call": 6,
        "grid_menu": ["g0", "gA (2n-1, same domain)", "gAx", "gB (other align_corners)", "gC (other size/spacing/centre)", "gD (disp target: current grid resampled to another size)"],
    }


# ---------------------------------------------------------------------------
# canonical state key of the real objects
def grid_fp(g):
    return (tensor_bytes(g._size), tensor_bytes(g._center), tensor_bytes(g._spacing), tensor_bytes(g._direction), bool(g._align_corners))


_KNOWN_ATTRS = set(torch.nn.Module().__dict__) | {
    "_grid", "_args", "_kwargs", "_update_hook_handle", "invert", "scale", "steps", "align_corners", "stride", "_resize", "params",
}


def fingerprint(W: World):
    ids = {}

    def alias(x):
        return ids.setdefault(("o", id(x)), len(ids))

    def talias(t):
        return ids.setdefault(("s", t.untyped_storage().data_ptr()), len(ids))

    out = []

    def tens(t):
        return (type(t).__name__ == "Parameter", bool(t.requires_grad), h64(tensor_bytes(t)), talias(t), alias(t))

    def walk(o, label, who=None):
        who = label if who is None else who
        first = ("o", id(o)) not in ids
        a = alias(o)
        out.append((label, type(o).__name__, a))
        if not first:
            return
        if isinstance(o, Pred):
            return
        if isinstance(o, torch.nn.ModuleDict):
            for k, v in o.items():
                walk(v, "md:" + k, who)
            return
        d = o.__dict__
        if "_grid" in d:
            kw = d.get("_kwargs", {})  # private; its container type is not ours to assume (dict today)
            kw = sorted(kw.items(), key=repr) if isinstance(kw, dict) else kw
            out.append(("grid", grid_fp(d["_grid"]), repr(d.get("_args")), repr(kw)))
        for k in ("invert", "scale", "steps", "align_corners", "stride", "_resize"):
            if k in d:
                out.append((k, repr(d[k])))
        if "params" in d:
            v = d["params"]
            out.append(("attr:params", tens(v) if isinstance(v, torch.Tensor) else (type(v).__name__, None if v is None else alias(v))))
        for k, v in sorted(d.get("_parameters", {}).items()):
            out.append(("P:" + k, None if v is None else tens(v)))
        for k, v in sorted(d.get("_buffers", {}).items()):
            if k.startswith("kernel_stride_"):
                continue
            if k == "p" and v is not None and not W.upd.get(who, False):
                out.append(("B:p", "not-updated-yet", tuple(v.shape), talias(v), alias(v)))
                continue
            out.append(("B:" + k, None if v is None else tens(v)))
        for k, v in sorted(d.get("_modules", {}).items()):
            if v is None:
                out.append(("M:" + k, None))
            else:
                walk(v, "M:" + k, who)
        # every other attribute of the object (e.g. a cache somebody adds later) is part of the state as well
        for k in sorted(d):
            if k in _KNOWN_ATTRS:
                continue
            v = d[k]
            if isinstance(v, torch.Tensor):
                out.append(("A:" + k, tens(v)))
            elif isinstance(v, torch.nn.Module):
                walk(v, "A:" + k, who)
            elif v is None or isinstance(v, (bool, int, float, str)):
                out.append(("A:" + k, repr(v)))
            elif isinstance(v, (tuple, list)) and all(isinstance(e, (bool, int, float, str)) for e in v):
                out.append(("A:" + k, repr(v)))
            elif hasattr(v, "_size") and hasattr(v, "_align_corners"):
                out.append(("A:" + k, grid_fp(v)))
            else:
                out.append(("A:" + k, type(v).__name__, alias(v)))

    for who in SLOTS:
        o = W.obj[who]
        if o is None:
            out.append((who, None))
        else:
            walk(o, who)
    out.append(("updated", tuple(sorted(W.upd.items()))))
    recs = tuple(None if W.rec[w] is None else W.rec[w].describe() for w in SLOTS)
    # aliasing of reference boxes
    bids = {}
    balias = tuple(
        None if W.rec[w] is None else tuple(None if m.box is None else bids.setdefault(id(m.box), len(bids)) for m in W.rec[w].mems)
        for w in SLOTS
    )
    return h64(repr(out), repr(recs), repr(balias))


# ---------------------------------------------------------------------------
# the step function: real API call + reference step + judgement
class Stop(Exception):
    pass


def _np(t):
    return t.detach().cpu().double().numpy()


def enabled(W: World, op):
    name, arg = op
    rt = W.rec["t"]
    cls, kind = W.cls, W.kind
    if name in OBSERVERS:
        r = W.rec[arg]
        if r is None:
            return False, "absent"
        if r.mode == "none":
            return False, "no-parameters"
        return True, ""
    if name == "update" and W.rec[arg] is None:
        return False, "absent"
    if name == "inverse":
        return (W.obj["inv"] is None), "slot-taken"
    if name == "derive":
        if W.obj["d2"] is not None:
            return False, "slot-taken"
        S = W.rec[arg[0]]
        if S is None:
            return False, "absent"
        if S.mode == "none":
            return False, "no-parameters"
        if arg[1] == "link" and cls != "lin" and S.grid != "g0":
            return False, "linked-shape-would-not-fit"
        return True, ""
    if name in CREATORS:
        if W.obj["cp"] is not None:
            return False, "slot-taken"
    if name in ("grid_", "copy_grid"):
        if cls in ("ffd", "svffd"):
            # only subdivision (2n - 1 per axis) of the same domain is supported (documented ValueError otherwise)
            cur, new = W.fx.G[rt.grid].n, W.fx.G[arg].n
            if not all(b == a or b == 2 * a - 1 for a, b in zip(cur, new)):
                return False, "not-a-subdivision"
        if name == "copy_grid" and arg == rt.grid:
            return False, "same-grid"
    if name == "link" and cls != "lin" and rt.grid != "g0":
        return False, "linked-shape-would-not-fit"
    if name in ("set_data", "edit", "copy_data") and rt.dead:
        return False, "dead"
    return True, ""


class Stepper:
    """Executes one op on a world. With an accumulator, judges it; problems are collected in self.problems."""

    def __init__(self, W: World, acc: Acc = None):
        self.W = W
        self.acc = acc
        self.problems = []  # (sig, detail)
        self.category = "unjudged"

    def bad(self, op, problem, detail, after=False):
        W = self.W
        sig = f"C09/{W.cls}-{W.kind}/{op_form(op)}/{problem}"
        if after:
            # observers: name the operation that defined what is observed (never values)
            r = W.rec.get(op[1]) if op[0] in ("disp", "dispg", "fwd") else None
            sig += f"/since={r.since}" if r is not None else f"/after={W.last_mut}"
        self.problems.append((sig, detail))

    def define(self, r):
        """disp() of the object of record r is defined from now on (replacing/resetting op, update, call, accessor copy)."""
        r.disp_ok = True
        r.since = op_form(self.op)

    def undef(self, reason):
        if self.acc is not None:
            self.acc.undef(reason)

    def call_impl(self, op, fn, *a, **kw):
        if self.acc is not None:
            self.acc.trans()
        st, res = guarded(fn, *a, **kw)
        if st == "raises":
            if isinstance(res, NotImplementedError):
                self.undef("NotImplementedError:" + op_form(op))
                raise Stop()
            self.bad(op, "raises=" + type(res).__name__, exc_text(res), after=op[0] in OBSERVERS)
            raise Stop()
        return res

    # -- helpers ---------------------------------------------------------
    def check_regrid(self, op, who, old_members, old_grid, old_rec_valid, curv, acc_err):
        """Denotation must be preserved by re-gridding of a dense / spline object `who` (record already updated)."""
        W, fx = self.W, self.W.fx
        new_members, new_grid, r = W.eff(who)
        if new_members is None:
            return
        base = fx.base
        tol = W.tol_world(new_grid) + W.tol_world(old_grid)
        smooth = curv > 0
        # points: probes + samples of the new grid + samples of the old grid
        sets = [("probe", fx.probes), ("new-samples", ts.sample_world(new_grid)), ("old-samples", ts.sample_world(old_grid))]
        mtype = r.mems[0].type if len(r.mems) == 1 else None
        velocity = any(m["type"] in ts.VELOCITY_TYPES for m in new_members)
        h_old, h_new = old_grid.s, new_grid.s
        E_old = curv * float(np.sum(h_old * h_old)) / 8.0
        E_new = curv * float(np.sum(h_new * h_new)) / 8.0
        loose = E_new + 2.0 * (E_old + acc_err)
        for label, pts in sets:
            ok = ts.inside(base, old_rec_valid, pts) & ts.inside(base, r.valid, pts)
            if not ok.any():
                continue
            pts = pts[ok]
            # parameter level (velocity or displacement field itself, no integration): tight where exact
            def as_disp(ms):
                return [dict(m, type={"svf": "ddf", "svffd": "ffd"}.get(m["type"], m["type"])) for m in ms]

            before = ts.world_map(as_disp(old_members), old_grid, pts)
            after = ts.world_map(as_disp(new_members), new_grid, pts)
            err = float(np.abs(after - before).max())
            exact_here = (not smooth) or (label == "new-samples" and mtype in ts.DENSE_TYPES) or (label == "old-samples" and mtype in ts.SPLINE_TYPES)
            bound = tol if exact_here else tol + loose
            if err > bound:
                self.bad(op, "world-map-changed/" + label, f"field at {label} changed by {err:.3e} world units (bound {bound:.2e}) by re-gridding {old_grid.n.tolist()} -> {new_grid.n.tolist()}")
                return
        if velocity:
            # exp(v) computed by scaling and squaring clamps trajectories at the boundary; the affected zone grows by one cell per
            # squaring step and therefore depends on the resolution: the integrated deformation is not compared across grids
            # (later call/disp observations are judged exactly against the record holding the re-gridded velocities)
            self.undef("velocity-regrid:deformation-level-depends-on-discretisation")
        self.category = "regrid"

    def regrid_record(self, op, who, o, gkey):
        """Reference step of grid_ on a dense/spline tensor-kind object: adopt the implementation's parameters
        (judged by check_regrid), update validity bookkeeping."""
        W, fx = self.W, self.W.fx
        r = W.rec[who]
        old_members, old_grid, _ = W.eff(who)
        old_valid, curv, acc_err = r.valid, r.curv, r.acc
        m = r.mems[0]
        st, a = guarded(lambda: o.data())
        if st == "raises":
            self.bad(op, "data()-raises=" + type(a).__name__, exc_text(a))
            raise Stop()
        a = a.detach().cpu().numpy().astype(np.float32)
        exp_shape = W.data_shape(m.type, gkey)
        if tuple(a.shape) != exp_shape:
            self.bad(op, "parameter-shape", f"parameters have shape {tuple(a.shape)} after {op_form(op)}, expected {exp_shape}")
            raise Stop()
        old_key = r.grid
        r.grid = gkey
        m.grid = gkey
        m.box = Box(a)
        nv = ts.regrid_valid(fx.base, old_valid, fx.G[gkey])
        if nv is None:
            r.dead = "no-valid-region"
            return
        r.valid = nv
        h = fx.G[old_key].s
        if old_members is not None:
            self.check_regrid(op, who, old_members, old_grid, old_valid, curv, acc_err)
        r.acc = acc_err + curv * float(np.sum(h * h)) / 8.0

    def check_grid_attr(self, op, o, gkey):
        W = self.W
        st, g = guarded(lambda: o.grid())
        if st == "raises":
            self.bad(op, "grid()-raises=" + type(g).__name__, exc_text(g))
            raise Stop()
        want = W.fx.real(gkey)
        if grid_fp(g) != grid_fp(want):
            flag = "align_corners" if grid_fp(g)[:4] == grid_fp(want)[:4] else "geometry"
            self.bad(op, "grid-not-set/" + flag, f"grid() after {op_form(op)} is {g!r}, requested {want!r}")
            raise Stop()

    def kill_followers(self, reason, keep_linked):
        W = self.W
        for who in SLOTS[1:]:
            r = W.rec[who]
            if r is None or r.dead or r.mode in ("own", "none", "self"):
                continue
            if r.mode == "linked" and keep_linked:
                continue
            if r.kind == "callable" and r.mode == "shared":
                continue
            r.dead = reason

    def descends(self, who, src):
        W = self.W
        seen = 0
        while who != src and W.rec.get(who) is not None and seen < 4:
            who = W.rec[who].parent
            seen += 1
        return who == src

    def touch_followers(self, src="t", desync=True):
        """Objects derived from `src` no longer have defined buffers; with desync (the parameters `src` evaluates were
        replaced, not edited in place) linked ones are also out of sync until their next update()."""
        W = self.W
        for who in SLOTS[1:]:
            r = W.rec[who]
            if r is None or who == src or not self.descends(who, src):
                continue
            if r.mode in ("shared", "linked"):
                r.disp_ok = False
            if desync and r.mode == "linked":
                r.synced = False

    def composite_touch(self, who):
        """Composite copies share member modules: evaluating one object refreshes buffers of the others."""
        W = self.W
        if W.cls in ("seq", "seq2", "gen"):
            for w in SLOTS:
                if w != who and W.rec[w] is not None:
                    W.rec[w].disp_ok = False

    def refreshed(self, who):
        """update() / __call__ ran on `who`: its predicted or linked parameters are current, objects linked to it are not."""
        W = self.W
        r = W.rec[who]
        if r.mode == "linked":
            r.synced = W.data_ok(W.rec.get(r.parent))
        else:
            r.p_fresh = True
        if who == "t":
            if W.kind == "callable":
                self.touch_followers("t")
        else:
            self.touch_followers(who)

    # -- the ops ---------------------------------------------------------
    def config_of(self, o):
        """Evaluation-relevant configuration of an object that is not a tensor: sign flags and integrator settings."""
        out = []
        objs = [("self", o)]
        if self.W.cls in ("seq", "seq2", "gen"):
            st, it = guarded(lambda: list(o.named_transforms()))
            if st == "ok":
                objs += it
        for name, m in objs:
            d = m.__dict__
            e = d.get("_modules", {}).get("exp")
            out.append((name, type(m).__name__, d.get("invert"), d.get("stride"),
                        None if e is None else (e.scale, e.steps, e.align_corners)))
        return out

    def check_bystanders(self, op):
        """No operation may change sign flags / integrator settings of an object it is not applied to
        (grid_ legitimately changes the settings of its own receiver only)."""
        target = "t" if op[0] == "grid_" else None
        for who, before in self.cfg_before.items():
            if who == target:
                continue
            after = self.config_of(self.W.obj[who])
            if after != before:
                what = "receiver" if (who == "t" and op[0] in CREATORS) else who
                self.bad(op, f"{what}-changed/configuration", f"sign / integrator settings of {who} changed from {before!r} to {after!r}"[:400])
                raise Stop()

    def run(self, op):
        self.op = op
        self.cfg_before = {who: self.config_of(o) for who, o in self.W.obj.items() if o is not None}
        try:
            self._run(op)
            self.check_bystanders(op)
            alive = True
        except Stop:
            alive = False
        if op[0] not in OBSERVERS and op[0] != "update" and op[0] != "clear":
            self.W.last_mut = op_form(op)
        return alive and not self.problems

    def _run(self, op):
        W, fx = self.W, self.W.fx
        name, arg = op
        t, rt = W.obj["t"], W.rec["t"]
        cls, kind = W.cls, W.kind
        dense = cls in ("ddf", "svf", "ffd", "svffd")

        if name == "set_data":
            for m in rt.mems:
                a = fx.params(m.type, W.fidx(m, arg), m.grid)
                self.call_impl(op, W.member_obj(t, m.name).data_, torch.tensor(a))
                m.box = Box(a)
                m.pk = kind
            rt.valid = ts.hull_box(fx.base, fx.G[rt.mems[0].grid])
            rt.curv = fx.F[arg].curvature()
            rt.acc = fx.set_acc(rt.mems[0].type, arg, rt.mems[0].grid)
            self.define(rt)
            self.kill_followers("original-parameters-replaced", keep_linked=True)
            self.touch_followers()
            self.category = "mutate"
            return

        if name == "edit":
            m = rt.mems[0]
            mo = W.member_obj(t, m.name)
            e = (fx.params(m.type, "E", m.grid) * np.float32(0.5)).astype(np.float32)
            if arg is None:  # optimiser style under no_grad on the parameter itself

                def do():
                    with torch.no_grad():
                        mo.data().add_(torch.tensor(e))

                new = m.box.a + e
            elif arg == "data.add_":  # manual SGD idiom p.data.add_(...)
                do = lambda: mo.data().data.add_(torch.tensor(e))
                new = m.box.a + e
            elif arg == "data.mul_":
                do = lambda: mo.data().data.mul_(0.5)
                new = m.box.a * np.float32(0.5)
            elif arg == "data.copy_":
                v = fx.params(m.type, W.fidx(m, 2), m.grid)
                do = lambda: mo.data().data.copy_(torch.tensor(v))
                new = v
            elif arg == "sgd":  # loss = <params, e>, one torch.optim.SGD step with lr = 0.5: params -= 0.5 e

                def do():
                    prm = mo.data()
                    opt = torch.optim.SGD([prm], lr=0.5)
                    opt.zero_grad()
                    loss = (prm * torch.tensor(e)).sum()
                    loss.backward()
                    opt.step()
                    prm.grad = None

                new = m.box.a - np.float32(0.5) * e
            else:
                raise KeyError(arg)
            self.call_impl(op, do)
            m.box.a[...] = new  # in place: every record sharing the tensor follows
            if arg == "data.copy_":
                rt.valid = ts.hull_box(fx.base, fx.G[m.grid])
                rt.curv = fx.F[2].curvature()
                rt.acc = fx.set_acc(m.type, 2, m.grid)
            elif arg == "data.mul_":
                rt.curv, rt.acc = 0.5 * rt.curv, 0.5 * rt.acc
            rt.disp_ok = False
            self.touch_followers(desync=False)
            self.category = "mutate"
            return

        if name == "grid_":
            same = arg == rt.grid
            self.call_impl(op, t.grid_, fx.real(arg))
            self.check_grid_attr(op, t, arg)
            if same and dense and kind != "callable":
                # re-gridding onto the grid already held may or may not replace the parameter tensor (the dense models
                # resample and call data_): objects that merely share the old tensor are not judged afterwards
                self.regrid_record(op, "t", t, arg)
                self.kill_followers("original-regridded-onto-same-grid", keep_linked=True)
                self.touch_followers()
            if not same:
                if dense and kind != "callable":
                    self.regrid_record(op, "t", t, arg)
                    self.kill_followers("original-regridded", keep_linked=False)
                else:
                    rt.grid = arg
                    if dense:
                        for m in rt.mems:
                            m.grid = arg
                        self.kill_followers("original-regridded", keep_linked=False)
                self.define(rt)
                self.touch_followers()
            if self.category != "regrid":
                self.category = "mutate"
            return

        if name == "condition_":
            args, kwargs = fx.C[arg]
            self.call_impl(op, t.condition_, *args, **kwargs)
            st, c = guarded(lambda: t.condition())
            if st == "raises" or not (isinstance(c, tuple) and len(c) == 2 and tuple(c[0]) == tuple(args) and dict(c[1]) == dict(kwargs)):
                self.bad(op, "condition-not-set", f"condition() returned {c!r} after condition_{(args, kwargs)!r}")
                raise Stop()
            rt.cond = (args, kwargs)
            self.define(rt)
            if kind == "callable":
                rt.p_fresh = False
            self.composite_touch("t")
            self.define(rt)
            self.category = "mutate"
            return

        if name == "reset":
            for m in rt.mems:
                self.call_impl(op, W.member_obj(t, m.name).reset_parameters)
                if kind != "callable":
                    m.box.a[...] = fx.default(m.type, m.box.a.shape)
            if kind == "callable":
                rt.disp_ok = False
                rt.p_fresh = False
            else:
                rt.valid = ts.hull_box(fx.base, fx.G[rt.mems[0].grid])
                rt.curv, rt.acc = 0.0, 0.0
                self.define(rt)
            self.touch_followers(desync=(kind == "callable"))
            if kind == "callable":
                # reset_parameters() zeroes the predicted-parameter buffer p (members: the predicted tensors) IN PLACE; shallow
                # copies made since the last update still hold that very tensor, so what their data() returns is no longer
                # their prediction until they are updated themselves (objects linked to them: update()-first contract)
                for w in SLOTS[1:]:
                    r = W.rec[w]
                    if r is not None and r.kind == "callable" and r.mode != "linked":
                        r.p_fresh = False
            self.category = "mutate"
            return

        if name == "update":
            o, r = W.obj[arg], W.rec[arg]
            self.call_impl(op, o.update)
            W.upd[arg] = True
            self.define(r)
            self.refreshed(arg)  # linked objects read the newly predicted parameters only at their next update
            self.composite_touch(arg)
            self.category = "mutate"
            return

        if name == "clear":
            self.call_impl(op, t.clear_buffers)
            self.category = "mutate"
            return

        if name == "inverse":
            if arg == "inv":
                link, ub = True, True
                inv = self.call_impl(op, lambda: t.inv)
            else:
                link, ub = arg[0] == "T", arg[1] == "T"
                inv = self.call_impl(op, t.inverse, link=link, update_buffers=ub)
            if not isinstance(inv, type(t)):
                self.bad(op, "type", f"inverse() returned {type(inv).__name__}")
                raise Stop()
            mems = [m.clone(share_box=True) for m in reversed(rt.mems)]
            for m in mems:
                m.invert = not m.invert
            r = Rec(cls, kind, mems, rt.grid, rt.cond)
            r.mode = "linked" if link else "shared"
            r.p_fresh = rt.p_fresh
            r.synced = W.data_ok(rt)
            r.valid, r.acc, r.curv = rt.valid, rt.acc, rt.curv
            r.disp_ok = False
            r.dead = rt.dead
            W.obj["inv"], W.rec["inv"] = inv, r
            if ub and rt.disp_ok and rt.p_fresh:
                # update_buffers=True: "usable without update()", provided the buffers of the original it is derived from
                # are themselves defined (not after an in-place edit / unrefreshed prediction of the original)
                self.define(r)
            self.check_receiver(op)
            self.category = "create"
            return

        if name == "copy_data":
            m0 = rt.mems[0]
            a = fx.params(m0.type, arg, m0.grid)
            cp = self.call_impl(op, t.data, torch.tensor(a))
            if not isinstance(cp, type(t)):
                self.bad(op, "type", f"data(arg) returned {type(cp).__name__}")
                raise Stop()
            m = m0.clone(share_box=False)
            m.box = Box(a)
            m.pk = "param" if kind == "param" else "buffer"
            r = Rec(cls, m.pk, [m], rt.grid, rt.cond)
            r.mode = "own"
            r.valid = ts.hull_box(fx.base, fx.G[m.grid])
            r.curv, r.acc = fx.F[arg].curvature(), fx.set_acc(m.type, arg, m.grid)
            self.define(r)
            W.obj["cp"], W.rec["cp"] = cp, r
            self.check_receiver(op)
            self.category = "create"
            return

        if name == "copy_grid":
            cp = self.call_impl(op, t.grid, fx.real(arg))
            if not isinstance(cp, type(t)):
                self.bad(op, "type", f"grid(arg) returned {type(cp).__name__}")
                raise Stop()
            self.check_grid_attr(op, cp, arg)
            tensor_dense = dense and kind != "callable"
            mems = [m.clone(share_box=True) for m in rt.mems]
            r = Rec(cls, kind, mems, rt.grid, rt.cond)
            r.valid, r.acc, r.curv = rt.valid, rt.acc, rt.curv
            r.dead = rt.dead
            W.obj["cp"], W.rec["cp"] = cp, r
            if tensor_dense:
                r.mode = "own"
                if not r.dead:
                    self.regrid_record(op, "cp", cp, arg)
            else:
                r.mode = "shared"
                r.grid = arg
                if dense:
                    for m in mems:
                        m.grid = arg
            self.define(r)
            self.check_receiver(op)
            if self.category != "regrid":
                self.category = "create"
            return

        if name == "copy_cond":
            args, kwargs = fx.C[arg]
            cp = self.call_impl(op, t.condition, *args, **kwargs)
            if not isinstance(cp, type(t)):
                self.bad(op, "type", f"condition(args) returned {type(cp).__name__}: {cp!r}"[:200])
                raise Stop()
            st, c = guarded(lambda: cp.condition())
            if st == "raises" or not (isinstance(c, tuple) and len(c) == 2 and tuple(c[0]) == tuple(args) and dict(c[1]) == dict(kwargs)):
                self.bad(op, "condition-not-set", f"copy.condition() returned {c!r}, requested {(args, kwargs)!r}")
                raise Stop()
            mems = [m.clone(share_box=True) for m in rt.mems]
            r = Rec(cls, kind, mems, rt.grid, (args, kwargs))
            r.mode = "shared"
            r.valid, r.acc, r.curv = rt.valid, rt.acc, rt.curv
            r.dead = rt.dead
            self.define(r)
            r.p_fresh = False
            W.obj["cp"], W.rec["cp"] = cp, r
            if cls in ("seq", "seq2", "gen"):
                # composite.condition_ conditions the (shared) member modules: the original's members are re-conditioned
                # too; the original composite's own conditioning (used by GenericSpatialTransform.update) must survive
                self.composite_touch("cp")
                self.define(r)
            self.check_receiver(op)
            self.category = "create"
            return

        if name == "link":
            kw = {"stride": fx.stride[0]} if cls in ("ffd", "svffd") else {}
            other = self.call_impl(op, type(t), fx.real("g0"), params=None, **kw)
            cp = self.call_impl(op, other.link, t)
            mems = [m.clone(share_box=True) for m in rt.mems]
            for m in mems:
                m.grid = "g0"
                m.invert = False
            r = Rec(cls, kind, mems, "g0", fx.C["c0"])
            r.mode = "linked"
            r.synced = W.data_ok(rt)
            r.valid, r.acc, r.curv = rt.valid, rt.acc, rt.curv
            r.disp_ok = False
            r.dead = rt.dead
            W.obj["cp"], W.rec["cp"] = cp, r
            self.check_receiver(op)
            self.category = "create"
            return

        if name == "unlink":
            cp = self.call_impl(op, t.unlink)
            r = Rec(cls, kind, [m.clone(share_box=False) for m in rt.mems], rt.grid, rt.cond)
            r.mode = "none"
            W.obj["cp"], W.rec["cp"] = cp, r
            self.check_receiver(op)
            self.category = "create"
            return

        if name == "derive":
            self.derive(op)
            return

        if name in OBSERVERS:
            self.observe(op)
            return
        raise KeyError(name)

    def inverse_mems(self, S):
        mems = [m.clone(share_box=True) for m in reversed(S.mems)]
        for m in mems:
            m.invert = not m.invert
        return mems

    def derive(self, op):
        """Derive a further object (slot d2) from the inverse or the copy: inverse of inverse, copy of inverse, inverse / copy /
        link of copy (derivation depth 2)."""
        W, fx = self.W, self.W.fx
        cls, kind = W.cls, W.kind
        src, form = op[1]
        so, S = W.obj[src], W.rec[src]
        inherit = S.mode if S.mode in ("linked", "shared") else "shared"
        if form in ("FF", "TT"):
            link = ub = form == "TT"
            d = self.call_impl(op, so.inverse, link=link, update_buffers=ub)
            r = Rec(cls, S.kind, self.inverse_mems(S), S.grid, S.cond)
            if link:
                r.mode, r.parent, r.synced = "linked", src, W.data_ok(S)
            else:  # a shallow copy keeps the relation of its source (e.g. stays linked to the source's parent)
                r.mode, r.parent, r.synced = inherit, S.parent, S.synced
            r.p_fresh = S.p_fresh
            defined = ub and S.disp_ok and W.data_ok(S)
        elif form == "cond":
            args, kwargs = fx.C["c3" if kind != "callable" else "c2"]
            d = self.call_impl(op, so.condition, *args, **kwargs)
            r = Rec(cls, S.kind, [m.clone(share_box=True) for m in S.mems], S.grid, (args, kwargs))
            r.mode, r.parent, r.synced = inherit, S.parent, S.synced
            r.p_fresh = False
            # accessor copy = replacing operation; exempt where the documented update() contract applies first
            # (predicted parameters: same cause as the known callable findings; linked source: buffer p of the copy)
            defined = S.kind != "callable" and S.mode != "linked"
        elif form == "link":
            kw = {"stride": fx.stride[0]} if cls in ("ffd", "svffd") else {}
            other = self.call_impl(op, type(so), fx.real("g0"), params=None, **kw)
            d = self.call_impl(op, other.link, so)
            mems = [m.clone(share_box=True) for m in S.mems]
            for m in mems:
                m.grid, m.invert = "g0", False
            r = Rec(cls, S.kind, mems, "g0", fx.C["c0"])
            r.mode, r.parent, r.synced = "linked", src, W.data_ok(S)
            defined = False
        else:
            raise KeyError(form)
        if not isinstance(d, type(so)):
            self.bad(op, "type", f"returned {type(d).__name__}")
            raise Stop()
        r.valid, r.acc, r.curv = S.valid, S.acc, S.curv
        r.dead = S.dead
        r.disp_ok = False
        W.obj["d2"], W.rec["d2"] = d, r
        if defined:
            self.define(r)
        self.check_receiver(op)
        self.category = "create"

    def check_receiver(self, op):
        """A creator of a copy must leave the receiver holding its own parameters, grid and conditioning."""
        W = self.W
        t, rt = W.obj["t"], W.rec["t"]
        self.check_bystanders(op)
        if rt.dead:
            return
        if W.kind != "callable":
            for m in rt.mems:
                st, a = guarded(lambda: W.member_obj(t, m.name).data())
                if st == "raises":
                    self.bad(op, "receiver-changed/data()-raises=" + type(a).__name__, exc_text(a))
                    raise Stop()
                a = a.detach().cpu().numpy()
                if a.shape != m.box.a.shape or not np.array_equal(a, m.box.a):
                    self.bad(op, "receiver-changed/parameters", f"parameters of the original ({m.name}) differ after {op_form(op)}")
                    raise Stop()
        st, g = guarded(lambda: t.grid())
        if st == "ok" and grid_fp(g) != grid_fp(W.fx.real(rt.grid)):
            self.bad(op, "receiver-changed/grid", f"grid of the original is {g!r} after {op_form(op)}")
            raise Stop()
        st, c = guarded(lambda: t.condition())
        if st == "ok" and not (tuple(c[0]) == tuple(rt.cond[0]) and dict(c[1]) == dict(rt.cond[1])):
            self.bad(op, "receiver-changed/condition", f"conditioning of the original is {c!r} after {op_form(op)}, was {rt.cond!r}")
            raise Stop()

    # -- observers -------------------------------------------------------
    def observe(self, op):
        W, fx = self.W, self.W.fx
        name, who = op
        o = W.obj[who]
        r = W.rec[who]
        acc = self.acc
        if name == "invcall":
            # access `.inv` of a live object and evaluate the obtained transform at once: it must be the inverse of what
            # its owner denotes NOW (the obtained object is linked to the owner and documented as ready to use)
            tmp = Rec(W.cls, r.kind, self.inverse_mems(r), r.grid, r.cond)
            tmp.mode, tmp.parent = "linked", who
            members, rg, _ = W.eff(tmp)
            frame_grid = fx.G[r.grid]
            x = torch.tensor(ts.world_to_cube(frame_grid, fx.probes), dtype=torch.float32).unsqueeze(0)
            if acc is not None:
                acc.trans(2)
            st, X = guarded(lambda: o.inv)
            if st == "raises":
                if isinstance(X, NotImplementedError):
                    self.undef("NotImplementedError:" + op_form(op))
                elif members is not None:
                    self.bad(op, "raises=" + type(X).__name__, exc_text(X), after=True)
                raise Stop()
            if not isinstance(X, type(o)):
                self.bad(op, "type", f".inv returned {type(X).__name__}", after=True)
                raise Stop()
            st, y = guarded(X, x)
            if members is None:
                self.undef(f"invcall@{who}:{rg}")
                if st == "raises":
                    raise Stop()
                return
            if st == "raises":
                self.bad(op, "raises=" + type(y).__name__, exc_text(y), after=True)
                raise Stop()
            if not isinstance(y, torch.Tensor) or tuple(y.shape) != tuple(x.shape):
                self.bad(op, "shape", f"{who}.inv(x) returned {type(y).__name__} {tuple(getattr(y, 'shape', ()))}", after=True)
                raise Stop()
            yw = ts.cube_to_world(frame_grid, _np(y)[0])
            xw = ts.cube_to_world(frame_grid, x[0].double().numpy())
            ew = ts.world_map(members, rg, xw)
            vel = any(m["type"] in ts.VELOCITY_TYPES for m in members)
            ok = self.inside_hulls(members, xw, 0.0)
            tol = W.tol_world(frame_grid) * (4 if vel else 1)
            if acc is not None:
                acc.outcome(name, W.cls, W.kind, who, np.round(yw, 4).tobytes())
            if ok.any():
                err = np.abs(yw - ew)
                if err[ok].max() > tol:
                    i = int(np.argmax(err.max(axis=1) * ok))
                    self.bad(op, "mismatch", f"{who}.inv(x) maps world {np.round(xw[i], 4).tolist()} to {np.round(yw[i], 5).tolist()}, the inverse of what {who} denotes now maps it to {np.round(ew[i], 5).tolist()} (err {err[ok].max():.3e}, tol {tol:.1e})", after=True)
                    raise Stop()
                self.category = "invcall"
                if acc is not None and np.abs(ew - xw)[ok].max() > 1e-3:
                    acc.nontriv(name, W.cls, W.kind, who, h64(repr(r.describe())), repr(W.rec[r.parent].describe()) if r.mode == "linked" and W.rec.get(r.parent) is not None else "")
            else:
                self.undef("invcall:no-probe-in-valid-region")
            return
        if name in ("call", "fwd"):
            fwd = name == "fwd"
            members, rg, _ = W.eff(who)
            if fwd and not r.disp_ok:
                members, rg = None, "update-required-first"
            # probe coordinates are computed from the grid the record says the object holds
            frame_grid = fx.G[r.grid]
            c = ts.world_to_cube(frame_grid, fx.probes)
            x = torch.tensor(c, dtype=torch.float32).unsqueeze(0)
            if members is None:
                # not judged; still executed (it refreshes buffers, which is part of the state)
                if acc is not None:
                    acc.trans()
                st, y = guarded(o.forward if fwd else o, x)
                self.undef(f"{name}@{who}:{rg}")
                if st == "raises":
                    raise Stop()
                if fwd:
                    return
                W.upd[who] = True
            else:
                y = self.call_impl(op, o.forward if fwd else o, x)
                if not fwd:
                    W.upd[who] = True
                if not isinstance(y, torch.Tensor) or tuple(y.shape) != tuple(x.shape):
                    self.bad(op, "shape", f"call returned {type(y).__name__} {tuple(getattr(y, 'shape', ()))}", after=True)
                    raise Stop()
                yw = ts.cube_to_world(frame_grid, _np(y)[0])
                c32 = x[0].double().numpy()
                xw = ts.cube_to_world(frame_grid, c32)
                ew = ts.world_map(members, rg, xw)
                vel = any(m["type"] in ts.VELOCITY_TYPES for m in members)
                ok = self.inside_hulls(members, xw, 0.0)
                tol = W.tol_world(frame_grid) * (4 if vel else 1)
                if acc is not None:
                    acc.outcome(name, W.cls, W.kind, who, np.round(yw, 4).tobytes())
                if ok.any():
                    err = np.abs(yw - ew)[ok]
                    if err.max() > tol:
                        i = int(np.argmax(np.abs(yw - ew).max(axis=1) * ok))
                        self.bad(op, "mismatch", f"{who}{'.forward' if fwd else ''}(x) maps world {np.round(xw[i], 4).tolist()} to {np.round(yw[i], 5).tolist()}, current state denotes {np.round(ew[i], 5).tolist()} (err {err.max():.3e}, tol {tol:.1e})", after=True)
                        raise Stop()
                    self.category = "call"
                    if acc is not None:
                        if np.abs(ew - xw)[ok].max() > 1e-3:
                            acc.nontriv(name, W.cls, W.kind, who, h64(repr(r.describe())), repr(W.rec[r.parent].describe()) if r.mode == "linked" and W.rec.get(r.parent) is not None else "")
                else:
                    self.undef("call:no-probe-in-valid-region")
            if fwd:
                return
            self.define(r)
            self.refreshed(who)
            self.composite_touch(who)
            return
        # disp / dispg
        tkey = fx.target(r.grid) if name == "dispg" else r.grid
        target = fx.G[tkey]
        members, rg, _ = W.eff(who)
        judged = members is not None and r.disp_ok
        if acc is not None:
            acc.trans()
        fn = (lambda: o.disp(fx.real(tkey))) if name == "dispg" else (lambda: o.disp())
        st, d = guarded(fn)
        if not judged:
            self.undef(f"{name}@{who}:" + ("update-required-first" if members is not None else str(rg)))
            if st == "raises":
                raise Stop()
            return
        if st == "raises":
            self.bad(op, "raises=" + type(d).__name__, exc_text(d), after=True)
            raise Stop()
        shape = (1, target.D) + ts.tensor_shape(target.n)
        if not isinstance(d, torch.Tensor) or tuple(d.shape) != shape:
            self.bad(op, "shape", f"disp returned shape {tuple(getattr(d, 'shape', ()))}, expected {shape}", after=True)
            raise Stop()
        dv = _np(d)[0].reshape(target.D, -1).T  # (M, D) cube units of target
        A, _ = ts.frame(target)
        dw = dv @ A.T
        xw = ts.sample_world(target)
        ew = ts.world_map(members, rg, xw) - xw
        vel = any(m["type"] in ts.VELOCITY_TYPES for m in members)
        ok = self.inside_hulls(members, xw, 0.0) & ts.inside(fx.base, ts.hull_box(fx.base, rg), xw)
        tol = (W.tol_world(rg) + W.tol_world(target)) * (4 if vel else 1)
        if acc is not None:
            acc.outcome(name, W.cls, W.kind, who, np.round(dw, 4).tobytes())
        if ok.any():
            err = np.abs(dw - ew)
            if err[ok].max() > tol:
                i = int(np.argmax(err.max(axis=1) * ok))
                self.bad(op, "mismatch", f"{who}.disp({'g_other_size' if name == 'dispg' else ''}) at world {np.round(xw[i], 4).tolist()} is {np.round(dw[i], 5).tolist()}, current state denotes {np.round(ew[i], 5).tolist()} (err {err[ok].max():.3e}, tol {tol:.1e})", after=True)
                raise Stop()
            self.category = "disp"
            if acc is not None:
                if np.abs(ew)[ok].max() > 1e-3:
                    acc.nontriv(name, W.cls, W.kind, who, h64(repr(r.describe())), repr(W.rec[r.parent].describe()) if r.mode == "linked" and W.rec.get(r.parent) is not None else "")
        else:
            self.undef(name + ":no-sample-in-valid-region")

    def inside_hulls(self, members, xw, mg):
        """Points (and trajectories) must stay inside the sample hull of every dense member grid (no extrapolation judged)."""
        fx = self.W.fx
        ok = np.ones(len(xw), dtype=bool)
        for m in members:
            if m["type"] not in ts.LINEAR_TYPES:
                ok &= ts.inside(fx.base, ts.hull_box(fx.base, m["grid"]), xw, mg)
        return ok


# ---------------------------------------------------------------------------
# exploration
_FX = {}


def fixtures(cfg):
    key = repr(sorted(cfg.items()))
    fx = _FX.get(key)
    if fx is None:
        fx = _FX[key] = Fixtures(cfg)
    return fx


def replay_world(fx, hist):
    W = World(fx)
    for op in hist:
        s = Stepper(W, None)
        ok = s.run(op)
        if not ok:
            raise RuntimeError(f"replayed prefix no longer clean: {hist!r} at {op!r}: {s.problems[:1]}")
    return W


def shards(tier: str, seed: int):
    out = []
    for i, cfg in enumerate(configs(tier, seed)):
        for j in range(len(alphabet(cfg))):
            out.append({"tier": tier, "seed": seed, "cfg": i, "first": j, "id": f"{cfg['cls']}-{cfg['kind']}-{i}"})
    return out


def run_shard(shard) -> Acc:
    acc = Acc()
    cfg = configs(shard["tier"], shard["seed"])[shard["cfg"]]
    fx = fixtures(cfg)
    ops = alphabet(cfg)
    maxd = cfg["depth"]
    first = ops[shard["first"]]
    W0 = World(fx)
    acc.state(fingerprint(W0))
    en, why = enabled(W0, first)
    if not en:
        acc.undef("not-enabled:" + first[0] + ":" + why)
        return acc
    seen = set()
    frontier = []
    # quick tier, and the depth-4 configurations of the thorough tier: operations whose only oracle is "does not raise" are not
    # executed as the LAST step of a history of maximal length (they are executed, and followed by observers, at every earlier
    # position; the depth-3 and core-alphabet configurations of the thorough tier run them everywhere)
    last_skip = bool(cfg.get("lean")) or (cfg.get("alpha") == "full" and maxd >= 4)

    def extend(hist, op):
        """Replay hist on fresh objects, apply op with judgement; returns the new state key or None."""
        W = replay_world(fx, hist)
        s = Stepper(W, acc)
        alive = s.run(op)
        h2 = hist + [op]
        acc.trace(s.category, depth=len(h2))
        for sig, detail in s.problems:
            acc.violation(sig, {"cfg": cfg, "ops": h2}, detail, size=len(h2))
        if not alive:
            return None
        if len(h2) == maxd and len(acc.samples) < 2 and op[0] in OBSERVERS:
            acc.sample({"config": cfg, "history": [op_form(o) for o in h2]})
        key = fingerprint(W)
        acc.state(key)
        return key

    k = extend([], first)
    if k is not None:
        seen.add(k)
        frontier.append([first])
    for depth in range(2, maxd + 1):
        nxt = []
        for hist in frontier:
            Wp = replay_world(fx, hist)
            for op in ops:
                if last_skip and depth == maxd and op[0] in NO_ORACLE_OPS:
                    acc.undef("not-run:last-level-op-without-oracle:" + op[0])
                    continue
                en, why = enabled(Wp, op)
                if not en:
                    acc.undef("not-enabled:" + op[0] + ":" + why)
                    continue
                k = extend(hist, op)
                if k is None:
                    continue
                if k in seen:
                    acc.info["pruned_by_state_dedup"] = acc.info.get("pruned_by_state_dedup", 0) + 1
                    continue
                seen.add(k)
                if depth < maxd:
                    nxt.append(hist + [op])
        frontier = nxt
    return acc


def replay(case):
    """Plain re-execution of one recorded history; returns [(sig, detail)]."""
    cfg = case["cfg"]
    fx = Fixtures(cfg)
    W = World(fx)
    out = []
    for op in case["ops"]:
        op = [op[0], op[1]]
        en, why = enabled(W, op)
        if not en:
            break
        s = Stepper(W, None)
        alive = s.run(op)
        out.extend(s.problems)
        if not alive:
            break
    return out
