"""C11 - scaling and squaring equals the closed form for affine velocity fields.

Stateless map explored over a complete product lattice
    (shape, align_corners, generator, steps 0..8, scale, dtype, batch size, API form)
with five sub-checks (every case is one real call, judged by the float64 reference ref/flowalg.py):

    closed-form    expv / ExpFlow / SVF.u / SVFFD.u  ==  ((I + sG/2^k)^(2^k) - I) [x;1] at every sample,
                   for generators the reference has verified to keep the sample hull invariant
                   (steps = 0: result == s*v, judged for every field, no invariance needed)
    inverse-flag   inverse=True == scale=-s == negated field, value-identical tensors (relation between
                   calls; arbitrary fields; all API spellings)
    convergence    d_k = max |result_k - (expm(sG) - I)[x;1]| is non-increasing in k and
                   d_k <= |sG|^2 e^|sG| / 2^k
    api-equal      ExpFlow(...)(v), ExpFlow.forward(v, inverse), .inv, .inverse(), SVF/SVFFD buffers equal
                   the functional call value for value
    call-sequence  depth-2 model checking against hidden state: for every shape all ordered pairs [X, Y] of
                   configurations (expv / ExpFlow x align_corners x dtype), plus other-shape, SVF, compose_flows, logv
                   and other-steps/scale predecessors, are called one after the other in ONE process and every call is
                   judged by the closed form (a stateless API must not remember earlier calls)
    object-sequence sequences of calls on ONE ExpFlow / SVF / SVFFD object (exp(v), exp(v, inverse=True), exp(v),
                   exp.inv(v), exp(v), exp.inverse().inverse()(v), ...): every step equals expv of the (negated)
                   velocity field value for value, forward steps also the closed form (state kept in the object)
    layout         the velocity field / SVF parameters / SVFFD coefficients given as transposed view, step-sliced view
                   and stride-0 expanded batch: no exception, result equal to the contiguous form, argument unchanged
    smooth-inverse exp(v) o exp(-v) = id and exp(-v) o exp(v) = id (composition evaluated by the
                   reference's own multilinear interpolator) within A * S2(v) samples, S2 = sum over axes
                   of the largest second difference of v in samples (second order in the amplitude A),
                   and err(A) <= 6 err(A/2)
"""
from __future__ import annotations

import itertools

import numpy as np
import torch

from mc.core import Acc, exc_text, guarded, h64
from ref import flowalg as fa

PROPERTY = "C11"
RULE = (
    "complete product of grid shapes x align_corners x affine generator menu (hull invariance verified by the "
    "reference per case) x steps 0..8 x scales x float32/float64 x batch sizes x API forms (expv, ExpFlow, "
    "SVF.u, SVFFD.u), plus relations between calls (inverse flag, module vs function, convergence in k, "
    "exp(v) o exp(-v)), call / object sequences, and memory layouts of the given field (transposed view, step-sliced "
    "view, stride-0 batch) on a reduced menu; distinct = hash of the returned tensor; non-trivial = returned displacement differs "
    "from the scaled input by more than 1e-3 of its magnitude (squaring had an effect)"
)
EXPLANATION = "bounded exhaustive enumeration of expv configurations against the closed form (I+G/2^k)^(2^k)"
ASSUMPTIONS = [
    "generators are admitted only if the reference verifies that every sampling step x -> x + d_j(x), j < k, maps "
    "the sample hull (box of first/last samples: half width 1 for align_corners=True, 1-1/n otherwise) into itself",
    "tolerance 64 * eps(dtype) * (1 + steps) * |sG|_inf (rounding of coordinates, weights and values per squaring "
    "step; |sG|_inf bounds the displacement on the cube); realistic defects (step scaling, sampling convention, "
    "batch mix-up) give errors of 1e-2..1 |sG|",
    "smooth fields: sums of two sine products vanishing on the boundary samples, amplitude in samples; the bound "
    "A*S2(v) is the first-order accumulation of the linear interpolation error delta(1-delta)/2*|second difference| "
    "with delta <= A over the squaring steps of both exponentials and the final composition; observed 0.08-0.36 A*S2",
    "CPU tensors only; steps in [0, 8]; D in {2, 3}",
]
MIN_NONTRIVIAL = {"quick": 4000, "thorough": 9000}
MIN_OUTCOMES = {"quick": 10000, "thorough": 35000}
MIN_SUB_TRACES = {"closed-form": 4000, "inverse-flag": 500, "convergence": 100, "api-equal": 500, "smooth-inverse": 40, "call-sequence": 200, "object-sequence": 200, "layout": 200}

C = 64.0
EPS = {"f32": 2.0 ** -23, "f64": 2.0 ** -52}
DT = {"f32": torch.float32, "f64": torch.float64}
MAX_STEPS = 8


# ---------------------------------------------------------------------------
# menus
def shapes(tier):
    q = [(2, 3), (5, 7), (8, 8), (3, 4, 5), (6, 5, 4)]
    if tier == "quick":
        return q
    return q + [(2, 2), (3, 2), (4, 9), (16, 12), (7, 7), (2, 2, 2), (2, 5, 3), (9, 6, 7), (4, 4, 8)]


def scales(tier):
    return [1.0, 0.5] if tier == "quick" else [1.0, 0.5, 0.3, 2.0]


_GENERIC = [
    # (diag, offdiag pattern, translation) per seed table; 3-D values, 2-D uses the leading part
    ((-0.55, -0.7, -0.62), (0.05, -0.03, 0.04, 0.06, -0.05, 0.03), (0.04, -0.05, 0.03)),
    ((-0.8, -0.6, -0.66), (-0.06, 0.04, 0.03, -0.05, 0.06, -0.04), (-0.03, 0.06, 0.05)),
    ((-0.65, -0.75, -0.58), (0.07, 0.03, -0.05, 0.04, -0.03, 0.06), (0.05, 0.02, -0.04)),
    ((-0.72, -0.56, -0.69), (-0.04, -0.06, 0.05, 0.03, 0.04, -0.05), (-0.06, -0.03, 0.02)),
]

EXTRA_SCALES = [0.3, 1.7]
NEG_SCALES = [-1.0, -0.5, -0.7]
NEG_FORMS = [("expv", "flag"), ("ExpFlow", "module.forward"), ("ExpFlow", "module.inverse"), ("SVF.u", "module.inverse")]
GEN_NAMES = ["diag", "iso", "rot", "shear", "generic", "strong"]


def generator(name: str, D: int, seed: int) -> np.ndarray:
    """Homogeneous generator G (last row zero) of the velocity field v(x) = G [x;1], cube units."""
    if name == "diag":
        H = np.diag([-0.5, -0.25, -0.75][:D])
        t = [0.125, -0.0625, 0.25][:D]
    elif name == "iso":
        H = -0.5 * np.eye(D)
        t = [0.0] * D
    elif name == "rot":
        J = np.array([[0.0, -1.0], [1.0, 0.0]]) if D == 2 else np.array([[0.0, -1.0, 1.0], [1.0, 0.0, -1.0], [-1.0, 1.0, 0.0]])
        H = -0.625 * np.eye(D) + 0.09375 * J
        t = [0.0625, 0.03125, -0.0625][:D]
    elif name == "shear":
        H = -0.5 * np.eye(D)
        H[0, 1] = 0.125
        if D == 3:
            H[0, 2] = 0.0625
            H[1, 2] = -0.125
        t = [-0.0625, 0.0625, 0.03125][:D]
    elif name == "generic":
        dg, off, tr = _GENERIC[seed % 4]
        H = np.diag(dg[:D]).astype(float)
        k = 0
        for i in range(D):
            for j in range(D):
                if i != j:
                    H[i, j] = off[k % len(off)]
                    k += 1
        t = tr[:D]
    elif name == "strong":
        H = np.diag([-1.5, -1.25, -1.75][:D]).astype(float)
        for i in range(D):
            H[i, (i + 1) % D] = 0.0625
        t = [0.125, -0.125, 0.0625][:D]
    else:
        raise KeyError(name)
    return fa.hom(H, t)


def other_gen(name: str) -> str:
    """Second batch item: the next generator of the menu."""
    return GEN_NAMES[(GEN_NAMES.index(name) + 1) % len(GEN_NAMES)]


def apis(ac: bool, N: int, D: int):
    out = ["expv", "expv-positional", "ExpFlow", "SVF.u"]
    if ac and N == 1:
        out += ["SVFFD.u/stride=1", "SVFFD.u/stride=2", "SVFFD.u/stride=3/transpose"]
    return out


SMOOTH_SHAPES = {"quick": [(17, 17), (8, 8), (9, 10, 11)], "thorough": [(17, 17), (8, 8), (9, 10, 11), (5, 7), (16, 21), (6, 5, 4), (33, 33)]}
SMOOTH_AMPL = [0.25, 0.5, 1.0]


def bounds(tier):
    return {
        "shapes": [list(s) for s in shapes(tier)],
        "align_corners": [True, False],
        "generators": GEN_NAMES,
        "steps": list(range(MAX_STEPS + 1)),
        "scales": scales(tier),
        "extra_scales_not_float32_representable": EXTRA_SCALES,
        "negative_scales_with_inverse_request": NEG_SCALES,
        "relation_scales": [1.0, 0.5, -0.7, 0.3] if tier == "quick" else [1.0, 0.5, 0.3, -0.7, -1.0, 1.7, -0.5],
        "dtypes": ["float32", "float64"],
        "batch_sizes": [1, 2],
        "apis": apis(True, 1, 2),
        "smooth_shapes": [list(s) for s in SMOOTH_SHAPES[tier]],
        "smooth_amplitudes_samples": SMOOTH_AMPL + [a / 2 for a in SMOOTH_AMPL],
        "smooth_steps": [5, 8] if tier == "quick" else [3, 5, 8],
        "layout_forms": LAYOUT_FORMS,
        "layout_apis": LAYOUT_APIS,
        "layout_shapes": [list(s) for s in LAYOUT_SHAPES],
    }


# ---------------------------------------------------------------------------
# real API calls
def call_api(api: str, flow: torch.Tensor, shape, ac: bool, scale, steps: int, inverse: str = ""):
    """One real deepali call. inverse in {"", "flag", "negscale", "negfield", "module.inverse", "module.inv",
    "module.forward"} selects how the inverse is requested."""
    from deepali.core.flow import expv

    if api in ("expv", "expv-positional"):
        kw = dict(scale=scale, steps=steps, align_corners=ac)
        if inverse == "flag":
            kw["inverse"] = True
        elif inverse == "negscale":
            kw["scale"] = -(1.0 if scale is None else scale)
        elif inverse == "negfield":
            flow = -flow
        elif inverse:
            raise KeyError(inverse)
        if api == "expv-positional":
            from deepali.core.enum import PaddingMode, Sampling

            return expv(flow, kw["scale"], steps, Sampling.LINEAR, PaddingMode.BORDER, ac, kw.get("inverse", False))
        return expv(flow, **kw)
    if api == "ExpFlow":
        from deepali.modules import ExpFlow

        if inverse == "negscale":
            return ExpFlow(scale=-(1.0 if scale is None else scale), steps=steps, align_corners=ac)(flow)
        m = ExpFlow(scale=scale, steps=steps, align_corners=ac)
        if inverse == "module.inverse":
            return m.inverse()(flow)
        if inverse == "module.inv":
            return m.inv(flow)
        if inverse == "module.forward":
            return m(flow, inverse=True)
        if inverse == "negfield":
            return m(-flow)
        if inverse:
            raise KeyError(inverse)
        return m(flow)
    if api == "SVF.u":
        from deepali.core import Grid
        from deepali.spatial import StationaryVelocityFieldTransform

        grid = Grid(shape=tuple(shape), align_corners=ac)
        t = StationaryVelocityFieldTransform(grid, groups=flow.shape[0], params=flow, scale=scale, steps=steps)
        if inverse == "module.inverse":
            t = t.inverse()
        elif inverse:
            raise KeyError(inverse)
        t.update()
        return t.u
    raise KeyError(api)


def call_svffd(api: str, G_list, shape, scale, steps: int, dtype: str):
    """SVFFD with control point coefficients sampled from the affine field; returns (v, u) buffers."""
    from deepali.core import Grid
    from deepali.spatial import StationaryVelocityFreeFormDeformation

    parts = api.split("/")
    stride = int(parts[1].split("=")[1])
    transpose = "transpose" in parts
    grid = Grid(shape=tuple(shape), align_corners=True)
    t = StationaryVelocityFreeFormDeformation(
        grid, groups=len(G_list), params=False, stride=stride, scale=scale, steps=steps, transpose=transpose
    )
    ds = tuple(t.data_shape)
    D = len(shape)
    cps = [(np.arange(n, dtype=np.float64) - 1.0) * s for n, s in zip(ds[1:], t.data_stride)]
    mg = np.meshgrid(*cps, indexing="ij")
    X = np.stack([2.0 * mg[D - 1 - c] / (shape[D - 1 - c] - 1) - 1.0 for c in range(D)], axis=-1)
    Xh = np.concatenate([X, np.ones(X.shape[:-1] + (1,))], axis=-1)
    coef = np.stack([np.moveaxis((Xh @ G.T)[..., :D], -1, 0) for G in G_list])
    t = t.to(DT[dtype])
    t.data_(torch.tensor(coef, dtype=DT[dtype]))
    t.update()
    return t.v, t.u


# ---------------------------------------------------------------------------
def _np(t: torch.Tensor) -> np.ndarray:
    return t.detach().double().numpy()


def _sigtail(case):
    st = case.get("steps")
    s = f"ac={'T' if case['ac'] else 'F'}/{case['dtype']}/N={case.get('N', 1)}"
    if st is not None:
        s += "/steps=0" if st == 0 else "/steps>0"
    return s


class Result:
    """What one case produced: problems [(sig, detail)] and bookkeeping for the accumulator."""

    def __init__(self):
        self.problems = []
        self.trans = 0
        self.outcomes = []
        self.nontriv = []
        self.undef = []
        self.judged = 0

    def bad(self, sig, detail):
        self.problems.append((sig, detail))


def max_step(f: np.ndarray) -> float:
    """Largest difference between neighbouring samples of a batch of fields (N, D, ...spatial)."""
    m = 0.0
    for ax in range(2, f.ndim):
        if f.shape[ax] > 1:
            m = max(m, float(np.abs(np.diff(f, axis=ax)).max()))
    return m


def fit_affine(v: np.ndarray, shape, ac: bool):
    """Least-squares generator of a sampled field (float64) and the residual."""
    X = fa.cube_points(shape, ac).reshape(-1, len(shape))
    Xh = np.concatenate([X, np.ones((X.shape[0], 1))], axis=1)
    Y = v.reshape(v.shape[0], -1).T
    sol, *_ = np.linalg.lstsq(Xh, Y, rcond=None)
    res = np.abs(Xh @ sol - Y).max()
    D = len(shape)
    G = np.zeros((D + 1, D + 1))
    G[:D, :] = sol.T
    return G, float(res)


def case_closed_form(case) -> Result:
    r = Result()
    shape, ac, dtype, N = tuple(case["shape"]), case["ac"], case["dtype"], case["N"]
    D = len(shape)
    steps, scale, api = case["steps"], case["scale"], case["api"]
    names = [case["gen"]] + ([other_gen(case["gen"])] if N == 2 else [])
    Gs = [generator(n, D, case["seed"]) for n in names]
    eps = EPS[dtype]
    tail = _sigtail(case)
    sc = None if (scale == 1.0 and case.get("scale_none")) else scale
    inv_form = case.get("inverse", "")
    if inv_form:
        tail += f"/inverse={inv_form}/scale{'<0' if scale < 0 else '>0'}"
    s_eff = -scale if inv_form else scale  # the inverse flag negates the given scale, whatever its sign
    input_resid = 0.0
    if api.startswith("SVFFD"):
        st, res = guarded(call_svffd, api, Gs, shape, sc, steps, dtype)
        r.trans += 1
        if st == "raises":
            r.bad(f"C11/closed-form/api={api.split('/')[0]}/{tail}/raises={type(res).__name__}", exc_text(res))
            return r
        v_t, out = res
        vv = _np(v_t)
        # the velocity buffer must itself be affine (cubic B-splines have linear precision; C14's business):
        # the generator is read off the buffer so that this check judges the exponential only
        # (the spline kernels are float32 whatever the parameter dtype, so the buffer is affine up to float32
        # rounding only; the residual of the fit is a perturbation of the input field and enters the tolerance)
        Gfit = []
        for i in range(len(Gs)):
            Gf, resid = fit_affine(vv[i], shape, True)
            if resid > C * EPS["f32"] * max(fa.norm_inf(Gs[i]), 1e-3) or np.abs(Gf - Gs[i]).max() > 1e-3:
                r.undef.append("svffd-velocity-buffer-not-the-affine-field")
                return r
            Gfit.append(Gf)
            input_resid = max(input_resid, resid)
        Gs = Gfit
        flows = vv
    else:
        flows = np.stack([fa.affine_field(G, shape, ac) for G in Gs])
        flow = torch.tensor(flows, dtype=DT[dtype])
        st, out = guarded(call_api, api, flow, shape, ac, sc, steps, inv_form)
        r.trans += 1
        if st == "raises":
            r.bad(f"C11/closed-form/api={api}/{tail}/raises={type(out).__name__}", exc_text(out))
            return r
        flows = _np(flow)
    apiname = api.split("/")[0]
    if not isinstance(out, torch.Tensor) or tuple(out.shape) != (N, D) + shape:
        r.bad(f"C11/closed-form/api={apiname}/{tail}/shape", f"returned {type(out).__name__} {getattr(out, 'shape', None)}")
        return r
    if out.dtype != DT[dtype]:
        r.bad(f"C11/closed-form/api={apiname}/{tail}/dtype", f"returned {out.dtype} for {dtype} input")
    o = _np(out)
    r.outcomes.append(h64(o))
    for i, G in enumerate(Gs):
        sG = s_eff * G
        if steps > 0 and not fa.ss_admissible(sG, steps, shape, ac):
            r.undef.append("generator-does-not-keep-sample-hull-invariant")
            continue
        exp = fa.affine_field(fa.ss_closed(sG, steps), shape, ac)
        nrm = max(fa.norm_inf(sG), 1e-6)
        # eps is the machine epsilon of the INPUT dtype: no float32 term for float64 fields
        tol = C * eps * (1 + steps) * nrm + 4.0 * abs(scale) * input_resid
        err = float(np.abs(o[i] - exp).max())
        r.judged += 1
        if not np.isfinite(err) or err > tol:
            kind = "scaled-input" if steps == 0 else "mismatch"
            r.bad(
                f"C11/closed-form/api={apiname}/{tail}/{kind}",
                f"max |result - ((I+sG/2^k)^(2^k)-I)x| = {err:.3e} > tol {tol:.2e} (item {i}, gen {names[i] if i < len(names) else '?'}, "
                f"steps {steps}, scale {scale}{', inverse requested by ' + inv_form if inv_form else ''}, shape {shape})",
            )
        if float(np.abs(o[i] - s_eff * flows[i]).max()) > 1e-3 * nrm:
            r.nontriv.append(h64("cf", case["shape"], ac, names[i], steps, scale, inv_form))
    return r


def _field_for_relation(case):
    """Field of the relation sub-checks: affine generator (any, no invariance needed) or smooth field."""
    shape, ac = tuple(case["shape"]), case["ac"]
    D = len(shape)
    f = case["field"]
    if f.startswith("affine:"):
        G = generator(f.split(":")[1], D, case["seed"])
        v = fa.affine_field(G, shape, ac)
    else:
        amp = float(f.split(":")[1])
        v = fa.generic_field(shape, ac, case["seed"], amp)
    if case.get("N", 1) == 2:
        return np.stack([v, 0.75 * v + 0.01])
    return v[None]


INVERSE_FORMS = [
    ("expv", "flag"), ("expv", "negscale"), ("expv", "negfield"), ("expv-positional", "flag"),
    ("ExpFlow", "module.inverse"), ("ExpFlow", "module.inv"), ("ExpFlow", "module.forward"), ("ExpFlow", "negscale"),
    ("ExpFlow", "negfield"), ("SVF.u", "module.inverse"),
]


def case_inverse_flag(case) -> Result:
    """All spellings of the inverse return the same tensor (value for value)."""
    r = Result()
    shape, ac, dtype = tuple(case["shape"]), case["ac"], case["dtype"]
    steps, scale = case["steps"], case["scale"]
    tail = _sigtail(case)
    v = _field_for_relation(case)
    flow = torch.tensor(v, dtype=DT[dtype])
    sc = None if (scale == 1.0 and case.get("scale_none")) else scale
    results = {}
    for api, form in INVERSE_FORMS:
        st, out = guarded(call_api, api, flow, shape, ac, sc, steps, form)
        r.trans += 1
        if st == "raises":
            r.bad(f"C11/inverse-flag/api={api}/form={form}/{tail}/raises={type(out).__name__}", exc_text(out))
            continue
        if not isinstance(out, torch.Tensor) or out.shape != flow.shape:
            r.bad(f"C11/inverse-flag/api={api}/form={form}/{tail}/shape", f"{type(out).__name__} {getattr(out, 'shape', None)}")
            continue
        results[(api, form)] = out
    base = results.get(("expv", "flag"))
    if base is None:
        return r
    r.outcomes.append(h64(_np(base)))
    r.judged += 1
    for key, out in results.items():
        if key == ("expv", "flag"):
            continue
        if not torch.equal(out, base):
            d = float((out.double() - base.double()).abs().max())
            r.bad(
                f"C11/inverse-flag/api={key[0]}/form={key[1]}/{tail}/differs-from-inverse=True",
                f"max abs difference {d:.3e} (steps {steps}, scale {scale}, field {case['field']}, shape {shape})",
            )
    # the inverse must not be the forward result (vacuity of the relation) unless the field is zero
    st, fwd = guarded(call_api, "expv", flow, shape, ac, sc, steps, "")
    r.trans += 1
    if st == "ok" and isinstance(fwd, torch.Tensor) and not torch.equal(fwd, base):
        r.nontriv.append(h64("inv", case["shape"], ac, case["field"], steps, scale, dtype))
    if st == "ok" and steps == 0 and isinstance(fwd, torch.Tensor):
        # zero steps: scaled input and its negation
        exp = scale * v
        tol = C * EPS[dtype] * max(float(np.abs(exp).max()), 1e-6)
        if float(np.abs(_np(fwd) - exp).max()) > tol or float(np.abs(_np(base) + exp).max()) > tol:
            r.bad(f"C11/inverse-flag/api=expv/form=flag/{tail}/scaled-input", f"steps=0 result is not +-scale*v (scale {scale})")
    return r


def case_api_equal(case) -> Result:
    """Module / transform spellings equal the functional call value for value (forward direction)."""
    r = Result()
    shape, ac, dtype = tuple(case["shape"]), case["ac"], case["dtype"]
    steps, scale = case["steps"], case["scale"]
    tail = _sigtail(case)
    v = _field_for_relation(case)
    flow = torch.tensor(v, dtype=DT[dtype])
    sc = None if (scale == 1.0 and case.get("scale_none")) else scale
    st, base = guarded(call_api, "expv", flow, shape, ac, sc, steps)
    r.trans += 1
    if st == "raises":
        r.bad(f"C11/api-equal/api=expv/{tail}/raises={type(base).__name__}", exc_text(base))
        return r
    r.outcomes.append(h64(_np(base)))
    r.judged += 1
    if float((base.double() - flow.double() * scale).abs().max()) > 1e-3 * max(float(flow.abs().max()), 1e-9):
        r.nontriv.append(h64("api", case["shape"], ac, case["field"], steps, scale, dtype))
    if scale != 1.0:
        # the scale argument means "exponentiate s*v": expv(v, scale=s) == expv(s*v) up to rounding of the input dtype
        st, pre = guarded(call_api, "expv", flow * scale, shape, ac, None, steps)
        r.trans += 1
        if st == "raises":
            r.bad(f"C11/api-equal/api=expv(s*v)/{tail}/raises={type(pre).__name__}", exc_text(pre))
        else:
            hmin = min((2.0 / (n - 1) if ac else 2.0 / n) for n in shape if n > 1)
            lip = len(shape) * max_step(v) / hmin
            mag = abs(scale) * float(np.abs(v).max())
            tol = C * EPS[dtype] * (1 + steps) * max(mag, 1e-9) * float(np.exp(min(abs(scale) * lip, 30.0)))
            d = float((pre.double() - base.double()).abs().max())
            if not np.isfinite(d) or d > tol:
                r.bad(f"C11/api-equal/api=expv(s*v)/{tail}/scale-argument", f"max |expv(v, scale=s) - expv(s*v)| = {d:.3e} > tol {tol:.2e} (scale {scale}, steps {steps}, field {case['field']}, shape {shape})")
    for api in ("expv-positional", "ExpFlow", "SVF.u"):
        st, out = guarded(call_api, api, flow, shape, ac, sc, steps)
        r.trans += 1
        if st == "raises":
            r.bad(f"C11/api-equal/api={api}/{tail}/raises={type(out).__name__}", exc_text(out))
            continue
        if not isinstance(out, torch.Tensor) or out.shape != base.shape or not torch.equal(out, base):
            d = float((out.double() - base.double()).abs().max()) if isinstance(out, torch.Tensor) and out.shape == base.shape else float("nan")
            r.bad(f"C11/api-equal/api={api}/{tail}/differs-from-expv", f"max abs difference {d:.3e} (steps {steps}, scale {scale}, field {case['field']})")
    if case.get("defaults"):
        # documented defaults: scale=None == 1, steps=None == 5, inverse=False
        from deepali.core.flow import expv
        from deepali.modules import ExpFlow

        st, a = guarded(lambda: expv(flow, align_corners=ac))
        st2, b = guarded(lambda: expv(flow, scale=1, steps=5, align_corners=ac, inverse=False))
        st3, c = guarded(lambda: ExpFlow(align_corners=ac)(flow))
        r.trans += 3
        if "raises" in (st, st2, st3):
            e = a if st == "raises" else (b if st2 == "raises" else c)
            r.bad(f"C11/api-equal/api=defaults/{tail}/raises={type(e).__name__}", exc_text(e))
        elif not (torch.equal(a, b) and torch.equal(a, c)):
            r.bad(f"C11/api-equal/api=defaults/{tail}/differs-from-expv", "expv(v) != expv(v, scale=1, steps=5) or != ExpFlow()(v)")
    return r


def case_convergence(case) -> Result:
    r = Result()
    shape, ac, dtype = tuple(case["shape"]), case["ac"], case["dtype"]
    D = len(shape)
    scale = case["scale"]
    G = generator(case["gen"], D, case["seed"])
    sG = scale * G
    eps = EPS[dtype]
    tail = _sigtail(case)
    flow = torch.tensor(fa.affine_field(G, shape, ac)[None], dtype=DT[dtype])
    target = fa.affine_field(fa.expm(sG) - np.eye(D + 1), shape, ac)
    nrm = fa.norm_inf(sG)
    d, dref = {}, {}
    for k in range(MAX_STEPS + 1):
        if k > 0 and not fa.ss_admissible(sG, k, shape, ac):
            r.undef.append("generator-does-not-keep-sample-hull-invariant")
            continue
        st, out = guarded(call_api, "expv", flow, shape, ac, scale, k)
        r.trans += 1
        if st == "raises":
            r.bad(f"C11/convergence/api=expv/{tail}/raises={type(out).__name__}", exc_text(out))
            return r
        o = _np(out)[0]
        r.outcomes.append(h64(o))
        d[k] = float(np.abs(o - target).max())
        dref[k] = float(np.abs(fa.affine_field(fa.ss_closed(sG, k), shape, ac) - target).max())
    ks = sorted(d)
    if len(ks) < 2:
        return r
    r.judged += 1
    if d[ks[0]] > 4 * d[ks[-1]] + 1e-3 * nrm:
        r.nontriv.append(h64("conv", case["shape"], ac, case["gen"], scale, dtype))
    for k in ks:
        tol = C * eps * (1 + k) * nrm
        bound = nrm * nrm * np.exp(nrm) / 2.0 ** k
        if d[k] > bound + tol:
            r.bad(f"C11/convergence/api=expv/{tail}/bound", f"steps {k}: distance to (expm(sG)-I)x = {d[k]:.3e} > |sG|^2 e^|sG|/2^k = {bound:.3e}")
    for a, b in zip(ks[:-1], ks[1:]):
        if dref[b] > dref[a]:
            r.undef.append("reference-distance-not-monotone")
            continue
        tol = C * eps * (2 + a + b) * nrm
        if d[b] > d[a] + tol:
            r.bad(f"C11/convergence/api=expv/{tail}/not-decreasing", f"distance to the matrix exponential grows from steps {a} ({d[a]:.3e}) to {b} ({d[b]:.3e})")
    return r


def s2(vs: np.ndarray) -> float:
    return float(sum(np.abs(np.diff(vs, 2, axis=ax)).max() for ax in range(1, vs.shape[0] + 1)))


def _smooth_err(case, amp):
    """Residual of exp(v) o exp(-v) and exp(-v) o exp(v) in samples, evaluated with the reference interpolator."""
    shape, ac, dtype = tuple(case["shape"]), case["ac"], case["dtype"]
    vs = fa.smooth_field_samples(shape, case["which"], case["seed"], amp)
    v = fa.from_samples(vs, ac)
    flow = torch.tensor(v[None], dtype=DT[dtype])
    api, form = case["api"], case["form"]
    st, e1 = guarded(call_api, api, flow, shape, ac, None, case["steps"])
    if st == "raises":
        return "raises", e1, None
    st, e2 = guarded(call_api, api, flow, shape, ac, None, case["steps"], form)
    if st == "raises":
        return "raises", e2, None
    a, b = _np(e1)[0], _np(e2)[0]
    w1 = fa.to_samples(fa.compose_ref(a, b, ac), ac)
    w2 = fa.to_samples(fa.compose_ref(b, a, ac), ac)
    err = max(float(np.abs(w1).max()), float(np.abs(w2).max()))
    disp = float(np.abs(fa.to_samples(a, ac)).max())
    return "ok", err, (s2(vs), disp, h64(a, b))


def case_smooth(case) -> Result:
    r = Result()
    tail = f"api={case['api']}/form={case['form']}/" + _sigtail({**case, "steps": None})
    amp = case["amp"]
    st, e_full, info = _smooth_err(case, amp)
    r.trans += 2
    if st == "raises":
        r.bad(f"C11/smooth-inverse/{tail}/raises={type(e_full).__name__}", exc_text(e_full))
        return r
    st, e_half, info_h = _smooth_err(case, amp / 2)
    r.trans += 2
    if st == "raises":
        r.bad(f"C11/smooth-inverse/{tail}/raises={type(e_half).__name__}", exc_text(e_half))
        return r
    r.judged += 1
    r.outcomes += [info[2], info_h[2]]
    ftol = C * EPS[case["dtype"]] * 64 * max(amp, 1.0)
    for a, e, inf in ((amp, e_full, info), (amp / 2, e_half, info_h)):
        bound = a * inf[0] + ftol
        if inf[1] > 0.5 * a:
            r.nontriv.append(h64("smooth", case["shape"], case["ac"], case["which"], a, case["steps"], case["api"], case["form"]))
        if not np.isfinite(e) or e > bound:
            r.bad(f"C11/smooth-inverse/{tail}/bound", f"|exp(v) o exp(-v)| = {e:.3e} samples > A*S2 = {bound:.3e} (A={a}, steps {case['steps']}, shape {case['shape']})")
    if e_full > 6.0 * e_half + ftol:
        r.bad(f"C11/smooth-inverse/{tail}/order", f"err(A={amp}) = {e_full:.3e} > 6 * err(A/2) = {6 * e_half:.3e}: not second order in the amplitude")
    return r



# ---------------------------------------------------------------------------
# call sequences: depth-2 model checking of the stateless API against hidden state
def _cfg_name(c):
    s = c["api"] + "[" + ("ac=T" if c["ac"] else "ac=F") + "," + c["dtype"] + f",steps={c['steps']},scale={c['scale']}"
    if c.get("other_shape"):
        s += ",other-shape"
    return s + "]"


def seq_program(shape):
    """Ordered call sequences on one shape, executed one after the other in ONE process, in this order."""
    shape = list(shape)
    other = shape[:-1] + [shape[-1] + 1]
    base = {"steps": 4, "scale": 1.0}
    cfgs = [{"api": api, "ac": ac, "dtype": dt, **base} for api in ("expv", "ExpFlow") for ac in (True, False) for dt in ("f32", "f64")]
    prog = [[x, y] for x in cfgs for y in cfgs]
    for ac in (True, False):
        prog.append([{"api": "expv", "ac": not ac, "dtype": "f32", **base, "other_shape": other}, {"api": "expv", "ac": ac, "dtype": "f32", **base}])
        for pre in ("SVF.u", "compose_flows", "logv"):
            prog.append([{"api": pre, "ac": not ac, "dtype": "f32", **base}, {"api": "expv", "ac": ac, "dtype": "f32", **base}])
        # other steps / scale before (same flag and dtype)
        prog.append([{"api": "expv", "ac": ac, "dtype": "f32", "steps": 2, "scale": 0.5}, {"api": "expv", "ac": ac, "dtype": "f32", "steps": 6, "scale": 1.0}])
        prog.append([{"api": "ExpFlow", "ac": ac, "dtype": "f64", "steps": 6, "scale": 1.0}, {"api": "ExpFlow", "ac": ac, "dtype": "f64", "steps": 2, "scale": 0.5}])
    return prog


def seq_call(cfg, shape, seed):
    """One call of a sequence, judged by the closed form. Returns (status, detail, outcome hash)."""
    shape = tuple(cfg.get("other_shape") or shape)
    D = len(shape)
    ac, dtype, api, steps, scale = cfg["ac"], cfg["dtype"], cfg["api"], cfg["steps"], cfg["scale"]
    G = generator("rot", D, seed)
    flow = torch.tensor(fa.affine_field(G, shape, ac)[None], dtype=DT[dtype])
    if api in ("compose_flows", "logv"):
        from deepali.core.flow import compose_flows, logv

        small = flow * 0.05
        st, out = guarded((lambda: compose_flows(small, small, align_corners=ac)) if api == "compose_flows" else (lambda: logv(small, num_iters=2, align_corners=ac)))
        if st == "raises":
            return "raises=" + type(out).__name__, exc_text(out), 0
        return "unjudged", "", h64(_np(out)) if isinstance(out, torch.Tensor) else 0
    st, out = guarded(call_api, api, flow, shape, ac, scale, steps)
    if st == "raises":
        return "raises=" + type(out).__name__, exc_text(out), 0
    if not isinstance(out, torch.Tensor) or tuple(out.shape) != tuple(flow.shape):
        return "shape", f"{type(out).__name__} {getattr(out, 'shape', None)}", 0
    o = _np(out)[0]
    sG = scale * G
    if not fa.ss_admissible(sG, steps, shape, ac):
        return "unjudged", "", h64(o)
    exp = fa.affine_field(fa.ss_closed(sG, steps), shape, ac)
    tol = C * EPS[dtype] * (1 + steps) * fa.norm_inf(sG)
    err = float(np.abs(o - exp).max())
    if not np.isfinite(err) or err > tol:
        return "mismatch", f"max |result - ((I+sG/2^k)^(2^k)-I)x| = {err:.3e} > tol {tol:.2e}", h64(o)
    return "ok", "", h64(o)


def case_call_sequence(case) -> Result:
    """Every sequence of the program is executed in order in this process; every call that has a reference is
    judged (a stateless API must give the fresh-process answer whatever was called before)."""
    r = Result()
    shape = tuple(case["shape"])
    for seq in case["program"]:
        names = [_cfg_name(c) for c in seq]
        bad = False
        for i, cfg in enumerate(seq):
            st, detail, oh = seq_call(cfg, shape, case["seed"])
            r.trans += 1
            if oh:
                r.outcomes.append(oh)
            if st in ("ok", "unjudged"):
                continue
            bad = True
            r.bad(f"C11/call-sequence/{'-then-'.join(names)}/call={i + 1}/{st}", f"{detail} (shape {shape}; call {i + 1} of the sequence {names}, earlier sequences of the program executed before it in the same process)")
        r.judged += 1
        if seq[0] != seq[-1] and not bad:
            r.nontriv.append(h64("seq", case["shape"], names))
    return r



# ---------------------------------------------------------------------------
# sequences of calls on ONE module / transform object (state kept inside the object)
OBJ_PROGRAMS = {
    "ExpFlow": [
        ["fwd", "fwd(inverse=True)", "fwd", "inv", "fwd", "inverse.inverse", "inverse", "fwd"],
        ["inv", "fwd", "inverse", "fwd(inverse=True)", "fwd", "fwd(inverse=True)"],
    ],
    "SVF": [
        ["u", "inverse.u", "u", "inv.u", "u", "inverse.inverse.u", "inverse(update_buffers).u", "u"],
        ["inv.u", "u", "inverse.u", "u"],
    ],
}
OBJ_PROGRAMS["SVFFD"] = OBJ_PROGRAMS["SVF"]
_INVERTING = {"fwd(inverse=True)", "inv", "inverse", "inv.u", "inverse.u", "inverse(update_buffers).u"}


def _obj_step(obj, kind: str, step: str, flow):
    """One observation on the SAME object. Returns the tensor the step yields."""
    if kind == "ExpFlow":
        if step == "fwd":
            return obj(flow)
        if step == "fwd(inverse=True)":
            return obj(flow, inverse=True)
        if step == "inv":
            return obj.inv(flow)
        if step == "inverse":
            return obj.inverse()(flow)
        if step == "inverse.inverse":
            return obj.inverse().inverse()(flow)
        raise KeyError(step)
    if step == "u":
        return obj.update().u
    if step == "inverse.u":
        return obj.inverse().update().u
    if step == "inv.u":
        return obj.inv.update().u
    if step == "inverse.inverse.u":
        return obj.inverse().inverse().update().u
    if step == "inverse(update_buffers).u":
        obj.update()
        return obj.inverse(update_buffers=True).u
    raise KeyError(step)


def case_object_sequence(case) -> Result:
    """exp(v), exp(v, inverse=True), exp(v), exp.inv(v), ... on one ExpFlow / SVF / SVFFD object: every step must
    equal expv of the (negated) velocity field (value for value), forward steps also the closed form."""
    from deepali.core.flow import expv

    r = Result()
    shape, ac, dtype = tuple(case["shape"]), case["ac"], case["dtype"]
    D = len(shape)
    kind, scale, steps = case["obj"], case["scale"], case["steps"]
    G = generator(case["gen"], D, case["seed"])
    tail = f"obj={kind}/" + _sigtail({**case, "N": 1})
    flow = torch.tensor(fa.affine_field(G, shape, ac)[None], dtype=DT[dtype])

    def build():
        if kind == "ExpFlow":
            from deepali.modules import ExpFlow

            return ExpFlow(scale=scale, steps=steps, align_corners=ac), flow
        from deepali.core import Grid

        grid = Grid(shape=shape, align_corners=ac)
        if kind == "SVF":
            from deepali.spatial import StationaryVelocityFieldTransform

            return StationaryVelocityFieldTransform(grid, groups=1, params=flow.clone(), scale=scale, steps=steps), flow
        from deepali.spatial import StationaryVelocityFreeFormDeformation

        t = StationaryVelocityFreeFormDeformation(grid, groups=1, params=False, stride=2, scale=scale, steps=steps).to(DT[dtype])
        ds = tuple(t.data_shape)
        cps = [(np.arange(n, dtype=np.float64) - 1.0) * st for n, st in zip(ds[1:], t.data_stride)]
        mg = np.meshgrid(*cps, indexing="ij")
        X = np.stack([2.0 * mg[D - 1 - c] / (shape[D - 1 - c] - 1) - 1.0 for c in range(D)], axis=-1)
        Xh = np.concatenate([X, np.ones(X.shape[:-1] + (1,))], axis=-1)
        t.data_(torch.tensor(np.moveaxis((Xh @ G.T)[..., :D], -1, 0)[None], dtype=DT[dtype]))
        t.update()
        return t, t.v.clone()

    st, built = guarded(build)
    r.trans += 1
    if st == "raises":
        r.bad(f"C11/object-sequence/{tail}/construct/raises={type(built).__name__}", exc_text(built))
        return r
    obj, vel = built
    st, fwd = guarded(lambda: expv(vel, scale=scale, steps=steps, align_corners=ac))
    st2, bwd = guarded(lambda: expv(-vel, scale=scale, steps=steps, align_corners=ac))
    r.trans += 2
    if "raises" in (st, st2):
        e = fwd if st == "raises" else bwd
        r.bad(f"C11/object-sequence/{tail}/expv/raises={type(e).__name__}", exc_text(e))
        return r
    sG = scale * G
    closed = None
    if kind != "SVFFD" and (steps == 0 or fa.ss_admissible(sG, steps, shape, ac)):
        closed = fa.affine_field(fa.ss_closed(sG, steps), shape, ac)
    tol = C * EPS[dtype] * (1 + steps) * max(fa.norm_inf(sG), 1e-6)
    prog = case["program"]
    for i, step in enumerate(prog):
        st, out = guarded(_obj_step, obj, kind, step, flow)
        r.trans += 1
        name = f"step={step}/after={prog[i - 1] if i else 'new'}"
        if st == "raises":
            if kind != "ExpFlow" and "inv" in step:
                r.undef.append("transform-inverse-raises (C07's subject)")
                break
            r.bad(f"C11/object-sequence/{tail}/{name}/raises={type(out).__name__}", exc_text(out))
            break
        exp = bwd if step in _INVERTING else fwd
        if not isinstance(out, torch.Tensor) or out.shape != exp.shape:
            r.bad(f"C11/object-sequence/{tail}/{name}/shape", f"{type(out).__name__} {getattr(out, 'shape', None)}")
            break
        r.outcomes.append(h64(_np(out)))
        if not torch.equal(out, exp):
            d = float((out.double() - exp.double()).abs().max())
            d2 = float((out.double() - (fwd if exp is bwd else bwd).double()).abs().max())
            r.bad(
                f"C11/object-sequence/{tail}/{name}/differs-from-expv",
                f"step {i + 1} of {prog} on one {kind} object: differs from expv({'-' if exp is bwd else ''}v) by {d:.3e} (from the opposite sign by {d2:.3e}); scale {scale}, steps {steps}, shape {shape}",
            )
        elif closed is not None and exp is fwd and float(np.abs(_np(out)[0] - closed).max()) > tol:
            r.bad(f"C11/object-sequence/{tail}/{name}/mismatch", f"step {i + 1}: differs from the closed form by {float(np.abs(_np(out)[0] - closed).max()):.3e} > tol {tol:.2e}")
    r.judged += 1
    if not torch.equal(fwd, bwd) and not r.problems:
        r.nontriv.append(h64("obj", case["shape"], ac, dtype, kind, scale, steps, prog))
    return r



# ---------------------------------------------------------------------------
# memory layout of the user-supplied velocity field / parameters
LAYOUT_FORMS = ["transposed", "sliced", "expanded"]
LAYOUT_SHAPES = [(5, 7), (3, 4, 5)]
LAYOUT_APIS = ["expv", "ExpFlow", "SVF.u", "SVFFD.u"]


def _fp(t: torch.Tensor):
    base = t._base if t._base is not None else t
    return (t._version, t.data_ptr(), tuple(t.shape), tuple(t.stride()), t.detach().clone(), base.detach().clone())


def _fp_changed(t: torch.Tensor, fp) -> str:
    if tuple(t.shape) != fp[2] or tuple(t.stride()) != fp[3] or t.data_ptr() != fp[1]:
        return "metadata changed"
    base = t._base if t._base is not None else t
    if not torch.equal(t.detach(), fp[4]) or not torch.equal(base.detach(), fp[5]):
        return "values (or the buffer the view lives in) changed"
    if t._version != fp[0]:
        return f"_version {fp[0]} -> {t._version}"
    return ""


def _layout_call(api, field, shape, ac, scale, steps, dtype):
    """The real call with `field` as velocity field (expv / ExpFlow / SVF parameters) or B-spline coefficients."""
    if api != "SVFFD.u":
        return call_api(api, field, shape, ac, scale, steps)
    from deepali.core import Grid
    from deepali.spatial import StationaryVelocityFreeFormDeformation

    t = StationaryVelocityFreeFormDeformation(Grid(shape=tuple(shape), align_corners=True), groups=field.shape[0], params=False, stride=2, scale=scale, steps=steps)
    t = t.to(DT[dtype])
    t.data_(field)
    return t.update().u


def case_layout(case) -> Result:
    """Same values, other memory layout (transposed view, step-sliced view, stride-0 batch): no exception, result
    equal to the contiguous form, argument unchanged."""
    from ref.layout import applicable, relayout

    r = Result()
    shape, ac, dtype = tuple(case["shape"]), case["ac"], case["dtype"]
    D = len(shape)
    api, form, steps, scale = case["api"], case["layout"], case["steps"], case["scale"]
    tail = f"api={api}/" + _sigtail({**case, "N": 2}) + f"/layout={form}"
    if api == "SVFFD.u":
        from deepali.core import functional as U

        fshape = tuple(U.cubic_bspline_control_point_grid_size(shape, (2,) * D))
    else:
        fshape = shape
    if case["field"] == "affine":
        one = fa.affine_field(generator("rot", D, case["seed"]), fshape, ac)
        two = fa.affine_field(generator("shear", D, case["seed"]), fshape, ac)
    else:
        one = fa.generic_field(fshape, ac, case["seed"], 0.3)
        two = fa.generic_field(fshape, ac, case["seed"] + 1, 0.2)
    if form == "expanded":
        base = torch.tensor(one, dtype=DT[dtype])
        arg = relayout(base, "expanded", 2)
        ref_arg = relayout(base, "repeat", 2)
    else:
        ref_arg = torch.tensor(np.stack([one, two]), dtype=DT[dtype])
        if not applicable(ref_arg, form):
            r.undef.append("layout-not-applicable")
            return r
        arg = relayout(ref_arg, form)
    if arg.is_contiguous() or not torch.equal(arg, ref_arg):
        raise AssertionError("harness: relayout did not produce an equal non-contiguous tensor")
    st, ref = guarded(_layout_call, api, ref_arg, shape, ac, scale, steps, dtype)
    r.trans += 1
    if st == "raises":
        r.undef.append("contiguous-form-raises (judged by the other sub-checks)")
        return r
    fp = _fp(arg)
    st, out = guarded(_layout_call, api, arg, shape, ac, scale, steps, dtype)
    r.trans += 1
    r.judged += 1
    if st == "raises":
        r.bad(f"C11/layout/{tail}/raises={type(out).__name__}", exc_text(out))
        return r
    if not isinstance(out, torch.Tensor) or out.shape != ref.shape:
        r.bad(f"C11/layout/{tail}/shape", f"{type(out).__name__} {getattr(out, 'shape', None)} vs {tuple(ref.shape)}")
        return r
    r.outcomes.append(h64(_np(out)))
    r.nontriv.append(h64("layout", case["shape"], ac, dtype, api, form, steps, case["field"]))
    if not torch.equal(out, ref):
        tol = C * EPS[dtype] * (1 + steps) * max(float(ref_arg.abs().max()) * abs(scale), 1e-9)
        d = float((out.double() - ref.double()).abs().max())
        if not np.isfinite(d) or d > tol:
            r.bad(f"C11/layout/{tail}/value", f"result differs from the contiguous form by {d:.3e} > tol {tol:.2e} (steps {steps}, scale {scale}, field {case['field']}, shape {shape}, strides {tuple(arg.stride())})")
        else:
            r.undef.append("layout-result-equal-within-rounding-not-bitwise")
    c = _fp_changed(arg, fp)
    if c:
        r.bad(f"C11/layout/{tail}/operand-mutated", f"{c} (steps {steps}, scale {scale}, shape {shape})")
    return r


KINDS = {
    "closed-form": case_closed_form,
    "inverse-flag": case_inverse_flag,
    "api-equal": case_api_equal,
    "convergence": case_convergence,
    "smooth-inverse": case_smooth,
    "call-sequence": case_call_sequence,
    "object-sequence": case_object_sequence,
    "layout": case_layout,
}


# ---------------------------------------------------------------------------
def relation_fields(D):
    return ["affine:rot", "affine:strong", "generic:0.05", "generic:0.4"]


def cases_of(shard):
    tier, seed, kind = shard["tier"], shard["seed"], shard["kind"]
    shape, ac, dtype = tuple(shard["shape"]), shard["ac"], shard["dtype"]
    D = len(shape)
    base = {"kind": kind, "shape": list(shape), "ac": ac, "dtype": dtype, "seed": seed}
    if kind == "closed-form":
        N = shard["N"]
        for gen in GEN_NAMES:
            for scale in scales(tier):
                for steps in range(MAX_STEPS + 1):
                    for api in apis(ac, N, D):
                        yield {**base, "N": N, "gen": gen, "scale": scale, "steps": steps, "api": api}
                        if scale == 1.0 and api in ("expv", "ExpFlow", "SVF.u"):
                            yield {**base, "N": N, "gen": gen, "scale": scale, "steps": steps, "api": api, "scale_none": True}
            # scales that are not float32 numbers (a float64 field must be scaled in float64)
            for scale in EXTRA_SCALES:
                if scale in scales(tier):
                    continue
                for steps in range(MAX_STEPS + 1) if scale == 0.3 else (1, 4, 8):
                    for api in ("expv", "ExpFlow", "SVF.u") if scale == 0.3 else ("expv",):
                        yield {**base, "N": N, "gen": gen, "scale": scale, "steps": steps, "api": api}
            # negative scale together with a request for the inverse: the result is exp(+|s| v)
            for scale in NEG_SCALES:
                for steps in (0, 2, 5, 8):
                    for api, form in NEG_FORMS:
                        yield {**base, "N": N, "gen": gen, "scale": scale, "steps": steps, "api": api, "inverse": form}
    elif kind in ("inverse-flag", "api-equal"):
        rs = [1.0, 0.5, -0.7, 0.3] if tier == "quick" else [1.0, 0.5, 0.3, -0.7, -1.0, 1.7, -0.5]
        for field in relation_fields(D):
            for N in (1, 2):
                for scale in rs:
                    for steps in range(MAX_STEPS + 1) if (scale in (1.0, 0.5) or tier == "thorough") else (0, 1, 4, 8):
                        c = {**base, "N": N, "field": field, "scale": scale, "steps": steps}
                        yield c
                        if scale == 1.0:
                            yield {**c, "scale_none": True, "defaults": steps == 0}
    elif kind == "convergence":
        for gen in GEN_NAMES:
            for scale in scales(tier):
                yield {**base, "gen": gen, "scale": scale}
    elif kind == "smooth-inverse":
        for which in ("a", "b"):
            for amp in SMOOTH_AMPL:
                for steps in bounds(tier)["smooth_steps"]:
                    for api, form in (("expv", "flag"), ("ExpFlow", "module.inverse"), ("SVF.u", "module.inverse")):
                        yield {**base, "which": which, "amp": amp, "steps": steps, "api": api, "form": form}
    elif kind == "layout":
        for ac_ in (True, False):
            for dt in ("f32", "f64"):
                for api in LAYOUT_APIS:
                    if api == "SVFFD.u" and not ac_:
                        continue
                    for steps in (0, 4):
                        for fld in ("affine", "generic"):
                            for form in LAYOUT_FORMS:
                                yield {"kind": kind, "shape": list(shape), "seed": seed, "ac": ac_, "dtype": dt, "api": api, "steps": steps, "scale": 0.5, "field": fld, "layout": form}
    elif kind == "object-sequence":
        for ac_ in (True, False):
            for dt in ("f32", "f64"):
                for obj in ("ExpFlow", "SVF") + (("SVFFD",) if ac_ else ()):
                    for scale in (1.0, 0.5):
                        for steps in (0, 4):
                            for prog in OBJ_PROGRAMS[obj]:
                                yield {"kind": kind, "shape": list(shape), "seed": seed, "ac": ac_, "dtype": dt, "obj": obj, "gen": "rot", "scale": scale, "steps": steps, "program": prog}
    elif kind == "call-sequence":
        yield {"kind": kind, "shape": list(shape), "seed": seed, "dtype": "mixed", "program": seq_program(shape)}
    else:
        raise KeyError(kind)


def shards(tier: str, seed: int):
    out = []
    for shape in shapes(tier):
        # one process per shape: all ordered pairs of configurations are called one after the other
        out.append({"tier": tier, "seed": seed, "kind": "call-sequence", "shape": list(shape), "ac": True, "dtype": "mixed"})
        out.append({"tier": tier, "seed": seed, "kind": "object-sequence", "shape": list(shape), "ac": True, "dtype": "mixed"})
    for shape in shapes(tier):
        for ac in (True, False):
            for dtype in ("f32", "f64"):
                for N in (1, 2):
                    out.append({"tier": tier, "seed": seed, "kind": "closed-form", "shape": list(shape), "ac": ac, "dtype": dtype, "N": N})
                for kind in ("inverse-flag", "api-equal", "convergence"):
                    out.append({"tier": tier, "seed": seed, "kind": kind, "shape": list(shape), "ac": ac, "dtype": dtype})
    for shape in LAYOUT_SHAPES:
        out.append({"tier": tier, "seed": seed, "kind": "layout", "shape": list(shape), "ac": True, "dtype": "mixed"})
    for shape in SMOOTH_SHAPES[tier]:
        for ac in (True, False):
            for dtype in ("f32", "f64"):
                out.append({"tier": tier, "seed": seed, "kind": "smooth-inverse", "shape": list(shape), "ac": ac, "dtype": dtype})
    return out


def state_key(case):
    return tuple(sorted((k, repr(v)) for k, v in case.items()))


def run_shard(shard) -> Acc:
    acc = Acc()
    for case in cases_of(shard):
        fn = KINDS[case["kind"]]
        res = fn(case)  # deepali calls are guarded inside; an exception here is a harness error (exit 2)
        acc.state(state_key(case))
        acc.trans(res.trans)
        for u in res.undef:
            acc.undef(u)
        if case["kind"] == "call-sequence":
            acc.trace("call-sequence", n=res.judged, depth=2)
        elif res.judged or res.problems:
            acc.trace(case["kind"], depth=case.get("steps", 0) or 0)
        for o in res.outcomes:
            acc.outcome(o)
        for n in res.nontriv:
            acc.nontriv(n)
        for sig, detail in res.problems:
            acc.violation(sig, case, detail, size=1 + (case.get("steps") or 0))
        if len(acc.samples) < 2 and res.judged and (case.get("steps") or 0) >= 3:
            acc.sample({"case": case, "judged": res.judged, "problems": len(res.problems)})
    return acc


def replay(case):
    fn = KINDS[case["kind"]]
    res = fn(case)
    return list(res.problems)
