"""C08 - homogeneous-transform and rotation algebra is exact for every operand form.

Stateless maps explored over complete finite products of argument forms (operand kind x batch shape x dtype,
order string x notation x angle-tensor form, point shape, parameter kind), judged by the float64 algebra of
ref/homalg.py.  Values that enter linearly (matrices, offsets, points) come from dyadic tables (results exact);
angles, quaternions and rotation vectors come from explicit menus (quadrant boundaries, +-pi, generic values).

Sub-checks (DESIGN.md C08): matmul, matmul3, transform (+ composition == sequential application, vectors ignore the
translation), as_matrix (as_homogeneous_matrix / homogeneous_matrix(+offset)), euler_order, euler (matrix == product of
elementary rotations, proper rotation), euler_angles (angles -> matrix -> angles -> matrix), quat (quaternion /
axis-angle / matrix conversions and cycles, log/exp), getset (transform parameter getters/setters, Parameter and buffer).
"""
from __future__ import annotations

import itertools
import math

import numpy as np
import torch

from mc.core import Acc, exc_text, guarded, tensor_bytes
from ref import homalg as H

PROPERTY = "C08"
RULE = (
    "complete products of argument forms: operand kind (translation/affine/homogeneous) x batch shape (none,1,N=3) on either side, "
    "2- and 3-operand compositions in every bracketing, transform form x point shape x vectors flag, 12 Euler orders x 3 notations x "
    "9^3 angle lattice x angle-tensor form x homogeneous flag, quaternion/rotation-vector lattice (signs x axes x angles up to pi), "
    "transform getters/setters x parameter kind; distinct = (sub-check, argument form, value-table entry); non-trivial = the returned "
    "map differs from the identity. Memory layout: every tensor operand of a reduced menu of calls (9 operand-kind pairs of "
    "homogeneous_matmul/hmm, homogeneous_transform matrix and points, as_homogeneous_matrix, homogeneous_matrix+offset, "
    "euler_rotation_matrix/angles, 9 kornia conversions, 9 transform setters x Parameter/buffer) given as transposed view of a "
    "transposed copy, step-sliced view and stride-0 expanded batch, one operand at a time and all together: same result as with "
    "contiguous operands, no exception, operand unchanged"
)
EXPLANATION = "exhaustive comparison of deepali's homogeneous/rotation algebra with float64 textbook algebra over all argument forms"
ASSUMPTIONS = [
    "forms as documented: translation (D,) or (...,D,1); affine (...,D,D); homogeneous (...,D,D+1); first argument applied last",
    "tolerance 64 * eps(dtype) * scale; conversions that use acos (euler_rotation_angles, quaternion_exp_to_log) get the condition 1/|sin| of their own formula, menus keep |sin| >= 0.09 or exactly degenerate",
    "angle_axis_to_rotation_matrix divides by (theta + 1e-6): its 1.3e-6 absolute error is inside the float32 tolerance; float64 is not claimed for the kornia conversions",
    "documented NotImplementedError (euler_rotation_angles for orders other than ZXZ/XZX) and ValueError for values a squashed parameterisation cannot represent are not judged",
    "VERIF_SEED selects one of four dyadic value tables / generic axes; CPU only",
]
MIN_NONTRIVIAL = {"quick": 6000, "thorough": 25000}
MIN_OUTCOMES = {"quick": 8000, "thorough": 50000}
MIN_SUB_TRACES = {"matmul": 300, "matmul3": 1000, "transform": 500, "as_matrix": 60, "reuse": 100, "layout": 300, "euler": 500, "euler_order": 30, "euler_angles": 50, "quat": 300, "getset": 100}

EPS = {"f32": 2.0 ** -23, "f64": 2.0 ** -52}
DT = {"f32": torch.float32, "f64": torch.float64, "i64": torch.int64}
C = 64.0
NB = 3  # batch size N
PI32 = float(np.float32(math.pi))  # largest float32 <= pi ... (float32(pi) > pi by 8.7e-8; inside the closed menu end)

FORMS = ["t(D,)", "t(D,1)", "t(1,D,1)", "t(N,D,1)", "A(D,D)", "A(1,D,D)", "A(N,D,D)", "H(D,D+1)", "H(1,D,D+1)", "H(N,D,D+1)"]
FORMS_REDUCED = ["t(D,)", "t(N,D,1)", "A(D,D)", "A(N,D,D)", "H(D,D+1)", "H(1,D,D+1)", "H(N,D,D+1)"]


def _np(t):
    return t.detach().double().numpy()


# ---------------------------------------------------------------------------
# value tables (dyadic; four fixed tables selected by the seed)
def _dyadic(n, salt, seed, lo=-8, hi=8, den=4.0):
    x = (salt * 2654435761 + (seed % 4) * 97 + 12345) & 0xFFFFFFFF
    out = []
    for _ in range(n):
        x = (1103515245 * x + 12345) & 0x7FFFFFFF
        out.append(((x >> 8) % (hi - lo + 1) + lo) / den)
    return np.array(out, dtype=np.float64)


def form_shape(form, D):
    kind = form[0]
    lead = {"(D,": (), "(1,": (1,), "(N,": (NB,)}[form[1:4]]
    if form == "t(D,)":
        return (D,)
    cols = {"t": 1, "A": D, "H": D + 1}[kind]
    return lead + (D, cols)


def make_operand(form, D, salt, seed, dk="f32"):
    shp = form_shape(form, D)
    n = int(np.prod(shp))
    v = _dyadic(n, salt, seed).reshape(shp)
    if form[0] in "AH":
        # keep the linear part away from singular/identity: add 1.5 on the diagonal
        idx = np.arange(D)
        v[..., idx, idx] += 1.5
    if dk == "i64":
        v = np.round(v * 2)
        return torch.tensor(v, dtype=torch.int64), v
    return torch.tensor(v, dtype=DT[dk]), v


class _Ctx:
    def __init__(self, acc):
        self.acc = acc
        self.out = []

    def bad(self, sig, detail):
        self.out.append((sig, detail))

    def call(self, sig, fn, *a, undef_types=(NotImplementedError,), restore=True, **kw):
        """Guarded implementation call. Every tensor passed as an argument is fingerprinted bit for bit before and after
        the call: a changed operand no longer denotes the map it was given as ("converting ... does not change the map",
        "composition equals sequential application" for the operands as given) -> <sig>/operand-mutated. The operand is
        then restored (unless restore=False) so that the remaining judgements of the case are about the return values."""
        self.acc.trans()
        ops = [x for x in _flat_tensors(a) + _flat_tensors(tuple(kw.values()))]
        before = [(t, t.detach().clone(), tensor_bytes(t)) for t in ops]
        st, res = guarded(fn, *a, **kw)
        for i, (t, saved, fp) in enumerate(before):
            if tensor_bytes(t) != fp:
                self.bad(f"{sig}/operand-mutated", f"argument tensor #{i} of shape {tuple(t.shape)} was modified in place by the call (max change {float((t.detach().double() - saved.double()).abs().max()):.3g})")
                self.acc.outcome("operand-mutated", sig)
                if restore:
                    # the return value may alias the operand: detach it from the restore
                    if st == "ok":
                        if isinstance(res, torch.Tensor):
                            res = res.detach().clone()
                        elif isinstance(res, tuple):
                            res = tuple(r.detach().clone() if isinstance(r, torch.Tensor) else r for r in res)
                    with torch.no_grad():
                        t.copy_(saved)
        if st == "raises":
            if isinstance(res, undef_types):
                self.acc.undef(type(res).__name__ + ":" + sig.split("/")[1])
                return None
            self.bad(f"{sig}/raises={type(res).__name__}", exc_text(res))
            self.acc.outcome("raise", sig, type(res).__name__)
            return None
        return res


def _flat_tensors(x):
    if isinstance(x, torch.Tensor):
        return [x]
    if isinstance(x, (list, tuple)):
        return [t for y in x for t in _flat_tensors(y)]
    return []


def _cmp(ctx, sig, got, exp, tol, what, kind="value"):
    got, exp = np.asarray(got), np.asarray(exp)
    if got.shape != exp.shape:
        ctx.bad(sig + "/shape", f"{what}: shape {got.shape} expected {exp.shape}")
        return False
    if not np.all(np.isfinite(got)):
        ctx.bad(sig + "/nonfinite", f"{what}: non-finite result")
        return False
    err = float(np.abs(got - exp).max()) if got.size else 0.0
    if err > tol:
        ctx.bad(f"{sig}/{kind}", f"{what}: max |impl - ref| = {err:.3e} > tol {tol:.2e}")
        return False
    return True


def _as_full(ctx, sig, res, D, what):
    """Interpret a returned tensor as a homogeneous transformation of dimension D -> full matrices or None."""
    if not isinstance(res, torch.Tensor):
        ctx.bad(sig + "/type", f"{what}: returned {type(res).__name__}")
        return None
    try:
        kind, d = H.classify(tuple(res.shape))
    except ValueError:
        ctx.bad(sig + "/form", f"{what}: result shape {tuple(res.shape)} is none of the documented forms")
        return None
    if d != D:
        ctx.bad(sig + "/form", f"{what}: result shape {tuple(res.shape)} is not a {D}-dimensional transformation")
        return None
    return H.full(_np(res))


def _nontrivial(full):
    D1 = full.shape[-1]
    return bool(np.abs(full - np.eye(D1)).max() > 1e-3)


# ---------------------------------------------------------------------------
def case_matmul(case, ctx):
    from deepali.core import linalg as L

    D, fa, fb, dk, seed = case["D"], case["a"], case["b"], case["dtype"], case["seed"]
    dka, dkb = (("i64", "f32") if dk == "int-first" else ("i64", "i64")) if dk.startswith("int") else (dk, dk)
    a, va = make_operand(fa, D, 1, seed, dka)
    b, vb = make_operand(fb, D, 2, seed, dkb)
    exp = H.compose(H.full(va), H.full(vb))
    ctx.acc.state("matmul", D, fa, fb, dk)
    scale = max(1.0, float(np.abs(exp).max()))
    eps = EPS["f64"] if dk == "f64" else EPS["f32"]
    for fn_name in ("homogeneous_matmul", "hmm"):
        sig = f"C08/matmul/fn={fn_name}/a={fa}/b={fb}"
        res = ctx.call(sig, getattr(L, fn_name), a, b)
        ctx.acc.trace("matmul")
        if res is None:
            continue
        ctx.acc.outcome("matmul", D, fa, fb, dk, fn_name, tensor_bytes(res))
        got = _as_full(ctx, sig, res, D, f"D={D}")
        if got is None:
            continue
        if fn_name == "hmm" and tuple(res.shape[-2:]) != (D, D + 1):
            ctx.bad(sig + "/form", f"hmm returned shape {tuple(res.shape)}, documented (..., D, D+1)")
        if _nontrivial(got):
            ctx.acc.nontriv("matmul", D, fa, fb, dk, fn_name)
        if got.size != exp.size:
            ctx.bad(sig + "/leading-shape", f"result {tuple(res.shape)} holds {got.size // (D + 1) ** 2} transformations, expected {exp.size // (D + 1) ** 2}")
            continue
        if got.shape != exp.shape:
            ctx.acc.undef("matmul:leading shape differs from numpy broadcasting")
            got = got.reshape(exp.shape)
        _cmp(ctx, sig, got, exp, C * eps * scale, f"D={D} {fa} o {fb}")


def case_matmul3(case, ctx):
    from deepali.core import linalg as L

    D, fs, seed = case["D"], case["forms"], case["seed"]
    ops, vals = zip(*[make_operand(f, D, 3 + i, seed, "f32") for i, f in enumerate(fs)])
    exp = H.compose(*[H.full(v) for v in vals])
    scale = max(1.0, float(np.abs(exp).max()))
    ctx.acc.state("matmul3", D, tuple(fs))
    modes = {
        "variadic": lambda a, b, c: L.homogeneous_matmul(a, b, c),
        "left": lambda a, b, c: L.homogeneous_matmul(L.homogeneous_matmul(a, b), c),
        "right": lambda a, b, c: L.homogeneous_matmul(a, L.homogeneous_matmul(b, c)),
    }
    for mode, fn in modes.items():
        sig = f"C08/matmul3/mode={mode}/a={fs[0]}/b={fs[1]}/c={fs[2]}"
        res = ctx.call(sig, fn, *ops)
        ctx.acc.trace("matmul3", depth=3)
        if res is None:
            continue
        ctx.acc.outcome("matmul3", D, tuple(fs), mode, tensor_bytes(res))
        got = _as_full(ctx, sig, res, D, f"D={D}")
        if got is None:
            continue
        if _nontrivial(got):
            ctx.acc.nontriv("matmul3", D, tuple(fs), mode)
        if got.size != exp.size:
            ctx.bad(sig + "/leading-shape", f"result {tuple(res.shape)}, expected {exp.size // (D + 1) ** 2} transformations")
            continue
        _cmp(ctx, sig, got.reshape(exp.shape), exp, C * EPS["f32"] * scale, f"D={D} {' o '.join(fs)}")


POINT_FORMS = ["(D,)", "(M,D)", "(1,M,D)", "(N,M,D)", "(N,D)", "(1,D)", "(N,2,2,D)"]


def _points(pf, D, seed, dk):
    shp = {"(D,)": (D,), "(M,D)": (4, D), "(1,M,D)": (1, 4, D), "(N,M,D)": (NB, 4, D), "(N,D)": (NB, D), "(1,D)": (1, D), "(N,2,2,D)": (NB, 2, 2, D)}[pf]
    v = _dyadic(int(np.prod(shp)), 11, seed, -12, 12, 2.0).reshape(shp)
    if dk == "i64":
        v = np.round(v)
        return torch.tensor(v, dtype=torch.int64), v
    return torch.tensor(v, dtype=DT[dk]), v


def _expected_points(Mfull, pv):
    """Documented batching: transform batch N (Mfull lead () / (1,) / (N,)), points (D,) or (P0, ..., D).
    Returns (expected array | None if the docs raise ValueError, function applying per item)."""
    lead = Mfull.shape[:-2]
    N = 1 if lead in ((), (1,)) else lead[0]
    Ms = Mfull.reshape((-1,) + Mfull.shape[-2:])
    if pv.ndim == 1:
        pts = [pv] * N
        return (lambda vec: np.stack([H.apply(Ms[i], pts[i], vec) for i in range(N)]) if N > 1 else H.apply(Ms[0], pv, vec))
    if N == 1:
        return lambda vec: H.apply(Ms[0], pv, vec)
    if pv.shape[0] in (1, N):
        return lambda vec: np.stack([H.apply(Ms[i], pv[i if pv.shape[0] == N else 0], vec) for i in range(N)])
    return None


def case_transform(case, ctx):
    from deepali.core import affine as A
    from deepali.core import linalg as L

    D, ft, pf, dk, seed = case["D"], case["t"], case["p"], case["dtype"], case["seed"]
    t, vt = make_operand(ft, D, 5, seed, "f32")
    p, vp = _points(pf, D, seed, dk)
    ctx.acc.state("transform", D, ft, pf, dk)
    Mfull = H.full(vt)
    fexp = _expected_points(Mfull, vp)
    eps = EPS["f32"]
    scale = (float(np.abs(Mfull).max()) + 1) * (float(np.abs(vp).max()) + 1) * D
    for vectors in (False, True):
        vf = "T" if vectors else "F"
        sig = f"C08/transform/T={ft}/P={pf}/vectors={vf}"
        fns = {"homogeneous_transform": (L.homogeneous_transform, {"vectors": vectors})}
        if case.get("aliases"):
            fns["apply_transform"] = (A.apply_transform, {"vectors": vectors})
            fns["transform_vectors" if vectors else "transform_points"] = (A.transform_vectors if vectors else A.transform_points, {})
        for name, (fn, fkw) in fns.items():
            s2 = sig if name == "homogeneous_transform" else f"{sig}/alias={name}"
            if fexp is None:
                ctx.acc.undef("transform:documented ValueError (leading sizes neither 1 nor equal)")
                continue
            res = ctx.call(s2, fn, t, p, **fkw)
            ctx.acc.trace("transform")
            if res is None:
                continue
            ctx.acc.outcome("transform", D, ft, pf, dk, vectors, name, tensor_bytes(res))
            exp = fexp(vectors)
            if np.abs(_np(res).reshape(-1)[: vp.size] - vp.reshape(-1)[: min(vp.size, res.numel())]).max() > 1e-3 if res.numel() >= vp.size else True:
                ctx.acc.nontriv("transform", D, ft, pf, dk, vectors)
            if not _cmp(ctx, s2, _np(res), exp, C * eps * scale, f"D={D} transform {ft} points {pf} vectors={vectors}"):
                continue
            if vectors and ft[0] == "t":
                # a pure translation leaves vectors exactly unchanged
                if not np.array_equal(_np(res).reshape(-1, D)[: vp.reshape(-1, D).shape[0]], vp.reshape(-1, D)) and res.numel() == vp.size:
                    ctx.bad(s2 + "/translation-applied-to-vectors", "vectors changed by a pure translation")


def case_compose_apply(case, ctx):
    """homogeneous_transform(hmm(a, b), p) == homogeneous_transform(a, homogeneous_transform(b, p))."""
    from deepali.core import linalg as L

    D, fa, fb, pf, seed = case["D"], case["a"], case["b"], case["p"], case["seed"]
    a, va = make_operand(fa, D, 1, seed)
    b, vb = make_operand(fb, D, 2, seed)
    p, vp = _points(pf, D, seed, "f32")
    ctx.acc.state("compose_apply", D, fa, fb, pf)
    sig = f"C08/compose_apply/a={fa}/b={fb}/P={pf}"
    Mfull = H.compose(H.full(va), H.full(vb))
    fexp = _expected_points(Mfull, vp)
    fb_only = _expected_points(H.full(vb), vp)
    if fexp is None or fb_only is None:
        ctx.acc.undef("transform:documented ValueError (leading sizes neither 1 nor equal)")
        return
    ctx.acc.trace("transform", depth=2)
    for fn_name in ("hmm", "homogeneous_matmul"):
        c = ctx.call(f"{sig}/{fn_name}", getattr(L, fn_name), a, b)
        if c is None:
            continue
        direct = ctx.call(f"{sig}/{fn_name}/apply-composite", L.homogeneous_transform, c, p)
        if direct is None:
            continue
        step1 = ctx.call(sig + "/apply-b", L.homogeneous_transform, b, p)
        if step1 is None:
            return
        # after the first step a batch of N point sets may exist; the second step pairs them item by item
        step2 = ctx.call(sig + "/apply-a", L.homogeneous_transform, a, step1)
        if step2 is None:
            return
        ctx.acc.outcome("compose_apply", D, fa, fb, pf, fn_name, tensor_bytes(direct))
        ctx.acc.nontriv("compose_apply", D, fa, fb, pf, fn_name)
        scale = (float(np.abs(Mfull).max()) + 1) * (float(np.abs(vp).max()) + 1) * D * D
        exp = fexp(False)
        ok1 = _cmp(ctx, f"{sig}/{fn_name}/composite", _np(direct), exp, C * EPS["f32"] * scale, f"D={D} ({fa} o {fb}) applied to {pf}")
        if step2.numel() == exp.size:
            _cmp(ctx, sig + "/sequential", _np(step2).reshape(exp.shape), exp, C * EPS["f32"] * scale, f"D={D} {fa} after {fb} applied to {pf}")
        elif ok1:
            ctx.acc.undef("compose_apply:sequential application re-batches the points (N x N)")


def case_as_matrix(case, ctx):
    from deepali.core import linalg as L

    D, f, mode, seed = case["D"], case["form"], case["mode"], case["seed"]
    t, vt = make_operand(f, D, 7, seed, "f32")
    exp = H.full(vt)
    ctx.acc.state("as_matrix", D, f, mode)
    ctx.acc.trace("as_matrix")
    sig = f"C08/as_matrix/mode={mode}/form={f}"
    kw = {}
    tol = C * EPS["f32"] * (float(np.abs(exp).max()) + 8)
    if mode == "as_homogeneous_matrix":
        res = ctx.call(sig, L.as_homogeneous_matrix, t)
    elif mode == "as_homogeneous_matrix[f64]":
        res = ctx.call(sig, L.as_homogeneous_matrix, t, dtype=torch.float64)
    elif mode == "as_homogeneous_tensor":
        r = ctx.call(sig, L.as_homogeneous_tensor, t)
        if r is None:
            return
        res, typ = r
        want = {"t": "translation", "A": "affine", "H": "homogeneous"}[f[0]]
        if getattr(typ, "value", typ) != want:
            ctx.bad(sig + "/kind", f"classified as {typ}, documented form is {want}")
    else:
        off_kind = mode.split(":")[1]
        lead = tuple(t.shape[:-2]) if t.ndim > 1 else ()
        if off_kind == "none":
            off, voff = None, np.zeros(D)
        elif off_kind == "scalar":
            off, voff = torch.tensor(1.25), np.full(D, 1.25)
        elif off_kind == "(D,)":
            voff = _dyadic(D, 13, seed)
            off = torch.tensor(voff, dtype=torch.float32)
        else:  # "(lead,D)"
            voff = _dyadic(int(np.prod(lead + (D,))), 14, seed).reshape(lead + (D,))
            off = torch.tensor(voff, dtype=torch.float32)
        res = ctx.call(sig, L.homogeneous_matrix, t, off)
        exp = exp.copy()
        exp[..., :D, D] += voff
    if res is None:
        return
    ctx.acc.outcome("as_matrix", D, f, mode, tensor_bytes(res))
    got = _as_full(ctx, sig, res, D, f"D={D} form {f}")
    if got is None:
        return
    if _nontrivial(got):
        ctx.acc.nontriv("as_matrix", D, f, mode)
    if mode != "as_homogeneous_tensor" and tuple(res.shape[-2:]) != (D, D + 1):
        ctx.bad(sig + "/form", f"result shape {tuple(res.shape)}, documented (..., D, D+1)")
    if got.size != exp.size:
        ctx.bad(sig + "/leading-shape", f"result {tuple(res.shape)} for input {tuple(t.shape)}")
        return
    _cmp(ctx, sig, got.reshape(exp.shape), exp, tol, f"D={D} form {f}: the map changed")


# ---------------------------------------------------------------------------
# Euler angles
def angle_menu(seed):
    d = [0.1, 0.15, 0.2, 0.12][seed % 4]
    g = [(-2.5, -0.3, 0.7, 2.9), (-2.4, -0.35, 0.8, 2.8), (-2.6, -0.25, 0.6, 3.0), (-2.3, -0.4, 0.9, 2.7)][seed % 4]
    return [-math.pi + d, g[0], -math.pi / 2, g[1], 0.0, g[2], math.pi / 2, g[3], math.pi]


def _lattice(seed, sub=None):
    m = angle_menu(seed)
    if sub is not None:
        m = [m[i] for i in sub]
    return np.array(list(itertools.product(m, repeat=3)), dtype=np.float64)


def _angle_tensor(lat, form, dk):
    """lat (n,3) -> tensor in the requested form; returns (tensor, rows used as (n,3) array)."""
    t = torch.tensor(lat, dtype=DT[dk])
    if form == "(N,3)":
        return t, lat
    if form == "(2,N,3)":
        n = lat.shape[0] // 2 * 2
        return t[:n].reshape(2, n // 2, 3), lat[:n]
    raise KeyError(form)


def _check_rotations(ctx, sig, got, exp_rows, homogeneous, tol, what):
    """got (..., 3, 3|4) vs list of expected 3x3."""
    cols = 4 if homogeneous else 3
    if got.shape[-2:] != (3, cols):
        ctx.bad(sig + "/shape", f"{what}: shape {got.shape}, expected (..., 3, {cols})")
        return False
    g = got.reshape(-1, 3, cols)
    if g.shape[0] != len(exp_rows):
        ctx.bad(sig + "/shape", f"{what}: {g.shape[0]} matrices for {len(exp_rows)} angle triples")
        return False
    if not np.all(np.isfinite(g)):
        ctx.bad(sig + "/nonfinite", f"{what}: non-finite entries")
        return False
    E = np.stack(exp_rows)
    err = np.abs(g[:, :, :3] - E).reshape(len(exp_rows), -1).max(1)
    if err.max() > tol:
        i = int(err.argmax())
        ctx.bad(sig + "/value", f"{what}: matrix #{i} differs from the product of elementary rotations by {err.max():.3e} > tol {tol:.2e}")
        return False
    if homogeneous and np.abs(g[:, :, 3]).max() > 0:
        ctx.bad(sig + "/translation", f"{what}: homogeneous rotation has a non-zero translation column")
        return False
    # proper rotations, on the implementation's own numbers
    RtR = np.einsum("nji,njk->nik", g[:, :, :3], g[:, :, :3])
    if np.abs(RtR - np.eye(3)).max() > tol * 3:
        ctx.bad(sig + "/orthonormal", f"{what}: R^T R deviates from I by {np.abs(RtR - np.eye(3)).max():.3e}")
        return False
    det = np.linalg.det(g[:, :, :3])
    if np.abs(det - 1).max() > tol * 6:
        ctx.bad(sig + "/det", f"{what}: det deviates from +1 by {np.abs(det - 1).max():.3e}")
        return False
    return True


def case_euler(case, ctx):
    from deepali.core import affine as A

    order, nota, form, hom, dk, seed = case["order"], case["notation"], case["form"], case["homogeneous"], case["dtype"], case["seed"]
    arg = None if nota == "default" else H.notation(order, nota)
    hf = "T" if hom else "F"
    sig = f"C08/euler_matrix/order={order}/notation={nota}/form={form}/homogeneous={hf}"
    tol = C * EPS[dk] * 3
    ctx.acc.state("euler", order, nota, form, hom, dk)
    fn = A.rotation_matrix if case.get("alias") else A.euler_rotation_matrix
    if form in ("(N,3)", "(2,N,3)"):
        lat = _lattice(seed)
        t, rows = _angle_tensor(lat, form, dk)
        res = ctx.call(sig, fn, t, arg, hom)
        ctx.acc.trace("euler", n=rows.shape[0])
        if res is None:
            return
        ctx.acc.outcome("euler", order, nota, form, hom, dk, tensor_bytes(res))
        ctx.acc.nontriv("euler", order, nota, form, hom, dk)
        if tuple(res.shape[:-2]) != tuple(t.shape[:-1]):
            ctx.bad(sig + "/shape", f"result {tuple(res.shape)} for angles {tuple(t.shape)}")
            return
        _check_rotations(ctx, sig, _np(res), [H.euler(order, r) for r in _np(t).reshape(-1, 3)], hom, tol, f"order {arg!r}")
        return
    # per-triple forms
    lat = _lattice(seed, case.get("sel"))
    for row in lat:
        if form == "(3,)":
            t = torch.tensor(row, dtype=DT[dk])
        elif form == "(1,3)":
            t = torch.tensor(row, dtype=DT[dk]).unsqueeze(0)
        elif form == "list":
            t = [float(x) for x in row]
        res = ctx.call(sig, fn, t, arg, hom)
        ctx.acc.trace("euler")
        if res is None:
            return
        ctx.acc.outcome("euler", order, nota, form, hom, dk, tensor_bytes(res))
        ctx.acc.nontriv("euler", order, tuple(row), form, hom)
        lead = () if form in ("(3,)", "list") else (1,)
        if tuple(res.shape[:-2]) != lead:
            ctx.bad(sig + "/shape", f"result {tuple(res.shape)} for angle form {form}")
            return
        used = row if form == "list" else _np(t).reshape(3)
        if not _check_rotations(ctx, sig, _np(res), [H.euler(order, used)], hom, C * EPS["f32" if form == "list" else dk] * 3, f"order {arg!r} angles {[round(float(x), 3) for x in row]}"):
            return


def case_euler2d(case, ctx):
    from deepali.core import affine as A

    form, hom, seed, dk = case["form"], case["homogeneous"], case["seed"], case["dtype"]
    hf = "T" if hom else "F"
    sig = f"C08/euler_matrix/D=2/form={form}/homogeneous={hf}"
    menu = angle_menu(seed)
    ctx.acc.state("euler2d", form, hom, dk)
    tol = C * EPS[dk] * 2
    calls = []
    if form == "(N,1)":
        t = torch.tensor(menu, dtype=DT[dk]).unsqueeze(1)
        calls = [(t, _np(t)[:, 0], (len(menu),))]
    else:
        for a in menu:
            if form == "float":
                calls.append((float(a), [float(np.float32(a))], ()))
            elif form == "0-dim":
                t = torch.tensor(a, dtype=DT[dk])
                calls.append((t, [float(t)], ()))
            elif form == "(1,)":
                t = torch.tensor([a], dtype=DT[dk])
                calls.append((t, [float(t[0])], ()))
            elif form == "(1,1)":
                t = torch.tensor([[a]], dtype=DT[dk])
                calls.append((t, [float(t[0, 0])], (1,)))
    for arg, used, lead in calls:
        res = ctx.call(sig, A.euler_rotation_matrix, arg, case.get("order"), hom)
        ctx.acc.trace("euler", n=len(used))
        if res is None:
            return
        ctx.acc.outcome("euler2d", form, hom, dk, tensor_bytes(res))
        ctx.acc.nontriv("euler2d", form, hom, dk, tuple(round(float(u), 4) for u in used))
        cols = 3 if hom else 2
        if tuple(res.shape) != lead + (2, cols):
            ctx.bad(sig + "/shape", f"result {tuple(res.shape)} expected {lead + (2, cols)}")
            return
        g = _np(res).reshape(-1, 2, cols)
        E = np.stack([H.rot2(u) for u in used])
        t2 = C * EPS["f32"] * 2 if form == "float" else tol
        if np.abs(g[:, :, :2] - E).max() > t2:
            ctx.bad(sig + "/value", f"2-D rotation differs from [[c,-s],[s,c]] by {np.abs(g[:, :, :2] - E).max():.3e}")
            return
        if hom and np.abs(g[:, :, 2]).max() > 0:
            ctx.bad(sig + "/translation", "non-zero translation column")
            return


def case_euler_order(case, ctx):
    from deepali.core import affine as A

    order, nota = case["order"], case["notation"]
    sig = f"C08/euler_order/notation={nota}"
    ctx.acc.state("euler_order", order, nota)
    ctx.acc.trace("euler_order")
    if nota == "ndim2":
        res = ctx.call(sig, A.euler_rotation_order, H.notation(order, "lower"), 2)
        want = "Z"
    elif nota == "default":
        res = ctx.call(sig, A.euler_rotation_order)
        want = "ZXZ"
    elif nota == "mixed":
        arg = f"R{order[0].lower()} o {order[1]} o R{order[2].lower()}"
        res = ctx.call(sig, A.euler_rotation_order, arg)
        want = order
    else:
        res = ctx.call(sig, A.euler_rotation_order, H.notation(order, nota))
        want = order
    if res is None:
        return
    ctx.acc.outcome("euler_order", order, nota, repr(res))
    ctx.acc.nontriv("euler_order", order, nota)
    if res != want:
        ctx.bad(sig + "/value", f"order {order} in notation {nota} normalised to {res!r}, expected {want!r}")


def case_euler_angles(case, ctx):
    """angles -> matrix -> euler_rotation_angles -> matrix returns the same rotation."""
    from deepali.core import affine as A

    order, form, seed, nota = case["order"], case["form"], case["seed"], case["notation"]
    arg = None if nota == "default" else H.notation(order, nota)
    base = f"C08/euler_angles/order={order}/form={form}"
    ctx.acc.state("euler_angles", order, form, nota)
    if order == "2D":
        menu = angle_menu(seed)
        for a in menu:
            R = torch.tensor(H.rot2(a), dtype=torch.float32)
            Rin = R if form == "(D,D)" else R.unsqueeze(0).repeat(NB if form == "(N,D,D)" else 1, 1, 1)
            if form == "(D,D+1)":
                Rin = torch.cat([R, torch.zeros(2, 1)], 1)
            ang = ctx.call(base, A.euler_rotation_angles, Rin)
            ctx.acc.trace("euler_angles")
            if ang is None:
                return
            ctx.acc.outcome("euler_angles", "2D", form, tensor_bytes(ang))
            ctx.acc.nontriv("euler_angles", "2D", form, round(a, 3))
            vals = _np(ang).reshape(-1)
            want_n = {"(D,D)": 1, "(D,D+1)": 1, "(1,D,D)": 1, "(N,D,D)": NB}[form]
            if vals.size != want_n:
                ctx.bad(base + "/shape", f"angles shape {tuple(ang.shape)} for matrix {tuple(Rin.shape)}")
                return
            for v in vals:
                if np.abs(H.rot2(v) - _np(R)).max() > C * EPS["f32"] * 2:
                    ctx.bad(base + "/cycle", f"2-D angle {a:.3f}: recovered {v:.4f} gives a different rotation")
                    return
        return
    lat = _lattice(seed)
    mats = np.stack([H.euler(order, r) for r in lat])
    if form == "(N,3,3)":
        batches = [(torch.tensor(mats, dtype=torch.float32), lat)]
    elif form == "(N,3,4)":
        batches = [(torch.cat([torch.tensor(mats, dtype=torch.float32), torch.zeros(len(lat), 3, 1)], 2), lat)]
    else:  # "(3,3)" one by one on a sub-lattice
        sub = _lattice(seed, case.get("sel", [1, 4, 5, 8]))
        batches = [(torch.tensor(H.euler(order, r), dtype=torch.float32), r[None]) for r in sub]
    for Rin, rows in batches:
        ang = ctx.call(base, A.euler_rotation_angles, Rin, arg)
        ctx.acc.trace("euler_angles", n=len(rows))
        if ang is None:
            return
        ctx.acc.outcome("euler_angles", order, form, tensor_bytes(ang))
        a = _np(ang).reshape(-1, 3) if ang.numel() == 3 * len(rows) else None
        if a is None or tuple(ang.shape) != tuple(Rin.shape[:-2]) + (3,):
            ctx.bad(base + "/shape", f"angles shape {tuple(ang.shape)} for matrix {tuple(Rin.shape)}")
            return
        if not np.all(np.isfinite(a)):
            ctx.bad(base + "/nonfinite", "non-finite angles")
            return
        Rsrc = _np(Rin).reshape(-1, 3, Rin.shape[-1])[:, :, :3]
        worst = {"cycle": (0.0, None), "gimbal": (0.0, None)}
        for i, r in enumerate(rows):
            sb = abs(math.sin(float(np.float32(r[1]))))
            degenerate = sb < 1e-3
            tol = C * EPS["f32"] * 3 * (1.0 if degenerate else 1.0 / sb)
            err = float(np.abs(H.euler(order, a[i]) - Rsrc[i]).max())
            k = "gimbal" if degenerate else "cycle"
            if err > tol and err > worst[k][0]:
                worst[k] = (err, (r, a[i], tol))
            ctx.acc.nontriv("euler_angles", order, tuple(np.round(r, 3)))
        for k, (err, info) in worst.items():
            if info is not None:
                r, ai, tol = info
                ctx.bad(f"{base}/{k}", f"angles {np.round(r, 4).tolist()} -> matrix -> angles {np.round(ai, 4).tolist()} -> matrix differs by {err:.3e} > tol {tol:.2e}")


# ---------------------------------------------------------------------------
# quaternions / rotation vectors
def axes_menu(seed):
    # principal axes plus one generic axis per dominant component (each branch of rotation_matrix_to_quaternion)
    xd = [(3, 1, 2), (3, -1, 2), (-3, 2, 1), (3, 2, -1)][seed % 4]
    yd = [(1, 3, -2), (-2, 3, 1), (2, -3, 1), (1, 3, 2)][seed % 4]
    zd = [(1, 2, 3), (-2, 1, 3), (2, -1, -3), (1, -2, 3)][seed % 4]
    return [(1, 0, 0), (0, 1, 0), (0, 0, 1), xd, yd, zd, (-1, 0, 0), (0, -1, 1)]


ROT_ANGLES = [0.0, 0.3, math.pi / 2, 2.0, 2.9, math.pi]


def quat_lattice(seed):
    """(q (w,x,y,z) unit, half-angle sine, angle) for signs x axes x angles."""
    out = []
    for ax in axes_menu(seed):
        for ang in ROT_ANGLES:
            for sgn in (1.0, -1.0):
                q = H.axis_angle_quat(ax, ang) * sgn
                out.append((q, abs(math.sin(ang / 2)), ang, ax))
    return out


def case_quat(case, ctx):
    from deepali.core import linalg as L

    fn, form, seed = case["fn"], case["form"], case["seed"]
    lat = quat_lattice(seed)
    Q = np.stack([q for q, _, _, _ in lat])
    Rq = np.stack([H.quat_to_matrix(q) for q in Q])
    AA = np.stack([np.asarray(ax, float) / np.linalg.norm(ax) * ang for _, _, ang, ax in lat])
    Raa = np.stack([H.rodrigues(v) for v in AA])
    sig = f"C08/quat/fn={fn}/form={form}"
    ctx.acc.state("quat", fn, form)
    tolR = C * EPS["f32"] * 3

    def f32(x):
        return torch.tensor(x, dtype=torch.float32)

    def rows(X):
        """iterate inputs according to form: one batched call or per-row calls."""
        if form == "batch":
            return [(f32(X), slice(None))]
        return [(f32(X[i]), slice(i, i + 1)) for i in range(0, len(X), case.get("step", 1))]

    def mats_of(res, n, shape_tail):
        a = _np(res)
        if a.size != n * int(np.prod(shape_tail)):
            ctx.bad(sig + "/shape", f"result shape {tuple(res.shape)} for {n} inputs")
            return None
        if not np.all(np.isfinite(a)):
            ctx.bad(sig + "/nonfinite", "non-finite result")
            return None
        return a.reshape((n,) + shape_tail)

    def cmpR(got, exp, tol, what, kind="value"):
        err = np.abs(got - exp).reshape(len(got), -1).max(1)
        bad = err > tol
        if np.any(bad):
            i = int(np.argmax(np.where(bad, err / np.maximum(tol, 1e-300), 0)))
            t = tol if np.isscalar(tol) else tol[i]
            ctx.bad(f"{sig}/{kind}", f"{what}: rotation differs by {err[i]:.3e} > tol {t:.2e}")
            return False
        return True

    for X, sl in rows({"quaternion_to_rotation_matrix": Q, "quaternion_to_rotation_matrix[scaled]": Q * 2.5, "quaternion_to_angle_axis": Q, "quaternion_exp_to_log": Q, "normalize_quaternion": Q * 2.5,
                        "rotation_matrix_to_quaternion": Rq, "rotation_matrix_to_angle_axis": Rq, "angle_axis_to_quaternion": AA, "angle_axis_to_rotation_matrix": AA,
                        "quaternion_log_to_exp": AA / 2, "cycle:aa->R->aa->R": AA, "cycle:q->R->q->R": Q, "cycle:q->aa->q": Q, "cycle:q->log->exp": Q}[fn]):
        n = len(range(*sl.indices(len(lat))))
        ctx.acc.trace("quat", n=n)
        idx = list(range(*sl.indices(len(lat))))
        sh = np.array([lat[i][1] for i in idx])
        if fn.startswith("quaternion_to_rotation_matrix"):
            res = ctx.call(sig, L.quaternion_to_rotation_matrix, X)
            if res is None:
                return
            want_shape = (3, 3) if X.ndim == 1 else (n, 3, 3)
            if tuple(res.shape) != want_shape:
                ctx.bad(sig + "/shape", f"result {tuple(res.shape)} for input {tuple(X.shape)}")
                return
            got = mats_of(res, n, (3, 3))
            ok = got is not None and cmpR(got, Rq[sl], tolR, "quaternion -> matrix")
        elif fn == "normalize_quaternion":
            res = ctx.call(sig, L.normalize_quaternion, X)
            if res is None:
                return
            got = mats_of(res, n, (4,))
            ok = got is not None and cmpR(got, Q[sl], C * EPS["f32"], "normalised quaternion")
        elif fn == "quaternion_to_angle_axis":
            res = ctx.call(sig, L.quaternion_to_angle_axis, X)
            if res is None:
                return
            got = mats_of(res, n, (3,))
            ok = got is not None and cmpR(np.stack([H.rodrigues(v) for v in got]), Rq[sl], tolR * 2, "quaternion -> rotation vector")
        elif fn == "rotation_matrix_to_quaternion":
            res = ctx.call(sig, L.rotation_matrix_to_quaternion, X)
            if res is None:
                return
            got = mats_of(res, n, (4,))
            ok = got is not None
            if ok and np.abs(np.linalg.norm(got, axis=1) - 1).max() > C * EPS["f32"] * 2:
                ctx.bad(sig + "/unit", f"quaternion norm deviates from 1 by {np.abs(np.linalg.norm(got, axis=1) - 1).max():.3e}")
                ok = False
            ok = ok and cmpR(np.stack([H.quat_to_matrix(q) for q in got]), Rq[sl], tolR * 2, "matrix -> quaternion")
        elif fn == "rotation_matrix_to_angle_axis":
            res = ctx.call(sig, L.rotation_matrix_to_angle_axis, X)
            if res is None:
                return
            got = mats_of(res, n, (3,))
            ok = got is not None and cmpR(np.stack([H.rodrigues(v) for v in got]), Rq[sl], tolR * 2, "matrix -> rotation vector")
        elif fn == "angle_axis_to_quaternion":
            res = ctx.call(sig, L.angle_axis_to_quaternion, X)
            if res is None:
                return
            got = mats_of(res, n, (4,))
            ok = got is not None
            if ok and np.abs(np.linalg.norm(got, axis=1) - 1).max() > C * EPS["f32"] * 2:
                ctx.bad(sig + "/unit", "quaternion is not of unit norm")
                ok = False
            ok = ok and cmpR(np.stack([H.quat_to_matrix(q) for q in got]), Raa[sl], tolR * 2, "rotation vector -> quaternion")
        elif fn == "angle_axis_to_rotation_matrix":
            if X.ndim == 1:
                ctx.acc.undef("angle_axis_to_rotation_matrix:documented input shape is (N, 3)")
                X = X.unsqueeze(0)
            res = ctx.call(sig, L.angle_axis_to_rotation_matrix, X)
            if res is None:
                return
            got = mats_of(res, n, (3, 3))
            ok = got is not None and cmpR(got, Raa[sl], tolR + 4e-6, "rotation vector -> matrix")
        elif fn == "quaternion_log_to_exp":
            res = ctx.call(sig, L.quaternion_log_to_exp, X)
            if res is None:
                return
            got = mats_of(res, n, (4,))
            ok = got is not None and cmpR(np.stack([H.quat_to_matrix(q) for q in got]), Raa[sl], tolR * 2, "log quaternion -> quaternion")
        elif fn == "quaternion_exp_to_log":
            res = ctx.call(sig, L.quaternion_exp_to_log, X)
            if res is None:
                return
            got = mats_of(res, n, (3,))
            cond = np.where(sh > 1e-6, 1.0 / np.maximum(sh, 1e-6), 1.0)
            ok = got is not None and cmpR(np.stack([H.rodrigues(2 * v) for v in got]), Rq[sl], tolR * 2 * cond, "quaternion -> log quaternion")
        elif fn == "cycle:aa->R->aa->R":
            Xb = X if X.ndim == 2 else X.unsqueeze(0)
            r1 = ctx.call(sig, L.angle_axis_to_rotation_matrix, Xb)
            r2 = None if r1 is None else ctx.call(sig, L.rotation_matrix_to_angle_axis, r1)
            res = None if r2 is None else ctx.call(sig, L.angle_axis_to_rotation_matrix, r2)
            if res is None:
                return
            got = mats_of(res, n, (3, 3))
            ok = got is not None and cmpR(got, Raa[sl], tolR * 4 + 8e-6, "rotation vector -> matrix -> rotation vector -> matrix", "cycle")
        elif fn == "cycle:q->R->q->R":
            r1 = ctx.call(sig, L.quaternion_to_rotation_matrix, X)
            r2 = None if r1 is None else ctx.call(sig, L.rotation_matrix_to_quaternion, r1.reshape(-1, 3, 3).contiguous())
            res = None if r2 is None else ctx.call(sig, L.quaternion_to_rotation_matrix, r2)
            if res is None:
                return
            got = mats_of(res, n, (3, 3))
            ok = got is not None and cmpR(got, Rq[sl], tolR * 4, "quaternion -> matrix -> quaternion -> matrix", "cycle")
        elif fn == "cycle:q->aa->q":
            r1 = ctx.call(sig, L.quaternion_to_angle_axis, X)
            res = None if r1 is None else ctx.call(sig, L.angle_axis_to_quaternion, r1)
            if res is None:
                return
            got = mats_of(res, n, (4,))
            ok = got is not None and cmpR(np.stack([H.quat_to_matrix(q) for q in got]), Rq[sl], tolR * 4, "quaternion -> rotation vector -> quaternion", "cycle")
        elif fn == "cycle:q->log->exp":
            r1 = ctx.call(sig, L.quaternion_exp_to_log, X)
            res = None if r1 is None else ctx.call(sig, L.quaternion_log_to_exp, r1)
            if res is None:
                return
            got = mats_of(res, n, (4,))
            cond = np.where(sh > 1e-6, 1.0 / np.maximum(sh, 1e-6), 1.0)
            ok = got is not None and cmpR(np.stack([H.quat_to_matrix(q) for q in got]), Rq[sl], tolR * 4 * cond, "quaternion -> log -> exp", "cycle")
        else:
            raise KeyError(fn)
        ctx.acc.outcome("quat", fn, form, sl.start, tensor_bytes(res))
        for i in idx:
            if lat[i][2] != 0.0:
                ctx.acc.nontriv("quat", fn, form, i)
        if not ok:
            return


# ---------------------------------------------------------------------------
# transform getters / setters
def _tgrid(D):
    from deepali.core.grid import Grid

    return Grid(size=(4, 5, 6)[:D])


def case_getset(case, ctx):
    import deepali.spatial as S

    cls_name, D, kind, N, seed = case["cls"], case["D"], case["kind"], case["N"], case["seed"]
    base = f"C08/getset/{cls_name}/D={D}/kind={kind}"
    ctx.acc.state("getset", cls_name, D, kind, N, case.get("order"))
    params = True if kind == "param" else False
    kw = {"order": case["order"]} if case.get("order") else {}
    t = ctx.call(base + "/construct", lambda: getattr(S, cls_name)(_tgrid(D), groups=N, params=params, **kw))
    if t is None:
        return
    tol = C * EPS["f32"]

    def tensor(v):
        return torch.tensor(np.asarray(v), dtype=torch.float32)

    def matrix_of(sig):
        m = ctx.call(sig + "/matrix", t.matrix)
        if m is None:
            return None
        if tuple(m.shape) != (N, D, D + 1):
            ctx.bad(sig + "/matrix/shape", f"matrix() shape {tuple(m.shape)} expected {(N, D, D + 1)}")
            return None
        ten = ctx.call(sig + "/tensor", t.tensor)
        if ten is not None:
            ft = _as_full(ctx, sig + "/tensor", ten, D, cls_name)
            if ft is not None and np.abs(ft.reshape(-1, D + 1, D + 1) - H.full(_np(m))).max() > tol * 8:
                ctx.bad(sig + "/matrix-vs-tensor", "matrix() and tensor() denote different maps")
        ctx.acc.outcome("getset", cls_name, D, kind, N, sig, tensor_bytes(m))
        return _np(m)

    am = angle_menu(seed)
    if cls_name == "EulerRotation":
        order = "".join(c for c in (case.get("order") or "ZXZ").upper() if c in "XYZ")
        na = 1 if D == 2 else 3
        pool = [am[(i * 2 + 1) % 9] for i in range(9)] + am
        for rep in range(case.get("reps", 3)):
            vals = np.array([[pool[(rep * 5 + n * 3 + j * 2) % len(pool)] for j in range(na)] for n in range(N)])
            if kind == "param":
                vals = np.where(vals >= math.pi, PI32 if False else math.pi, vals)
            sig = base + "/angles_"
            ctx.acc.trace("getset")
            if ctx.call(sig, t.angles_, tensor(vals)) is None:
                return
            got = ctx.call(base + "/angles", t.angles)
            if got is None:
                return
            ctx.acc.nontriv("getset", cls_name, D, kind, N, rep, "angles")
            v32 = _np(tensor(vals))
            # rotations, not parameters, are compared (angle pi may come back as -pi etc.)
            Rw = [H.rot2(r[0]) if D == 2 else H.euler(order, r) for r in v32]
            g = _np(got)
            if g.shape != v32.shape:
                ctx.bad(base + "/angles/shape", f"angles() shape {g.shape} after angles_({v32.shape})")
                return
            Rg = [H.rot2(r[0]) if D == 2 else H.euler(order, r) for r in g]
            # tanh/atanh squashing: d angle = pi * (1 - (a/pi)^2) * d param; forward error ~ eps * atanh(a/pi) * (1-(a/pi)^2) * pi
            if np.abs(np.stack(Rg) - np.stack(Rw)).max() > tol * 8:
                ctx.bad(base + "/angles/roundtrip", f"angles_({np.round(v32, 4).tolist()}) then angles() = {np.round(g, 4).tolist()}: different rotation")
                return
            m = matrix_of(base)
            if m is None:
                return
            if np.abs(m[:, :, :D] - np.stack(Rw)).max() > tol * 8 or np.abs(m[:, :, D]).max() > 0:
                ctx.bad(base + "/matrix/value", f"matrix() after angles_({np.round(v32, 4).tolist()}) is not the Euler rotation of order {order}")
                return
            # matrix_ : set from a rotation matrix, read back
            R = tensor(np.stack(Rw))
            r = ctx.call(base + "/matrix_", t.matrix_, R)
            if r is None:
                if ctx.out:
                    return
                continue
            m2 = matrix_of(base + "/matrix_")
            if m2 is None:
                return
            sb = np.abs(np.sin(v32[:, 1])) if D == 3 else np.ones(N)
            cond = float((1.0 / np.maximum(sb, 1e-3)).max())
            k = "gimbal" if (D == 3 and sb.min() < 1e-3) else "roundtrip"
            if np.abs(m2[:, :, :D] - np.stack(Rw)).max() > tol * 8 * (1.0 if k == "gimbal" else cond):
                ctx.bad(f"{base}/matrix_/{k}", f"matrix_(R) then matrix() differs from R by {np.abs(m2[:, :, :D] - np.stack(Rw)).max():.3e} (angles {np.round(v32, 3).tolist()})")
                return
    elif cls_name == "QuaternionRotation":
        lat = quat_lattice(seed)
        for rep in range(case.get("reps", 6)):
            qs = np.stack([lat[(rep * 11 + n * 7) % len(lat)][0] * (1.0 if rep % 2 == 0 else 2.5) for n in range(N)])
            Rw = np.stack([H.quat_to_matrix(q) for q in qs])
            ctx.acc.trace("getset")
            if ctx.call(base + "/quaternion_", t.quaternion_, tensor(qs)) is None:
                return
            q2 = ctx.call(base + "/quaternion", t.quaternion)
            if q2 is None:
                return
            ctx.acc.nontriv("getset", cls_name, kind, N, rep)
            g = _np(q2)
            if g.shape != qs.shape:
                ctx.bad(base + "/quaternion/shape", f"quaternion() shape {g.shape}")
                return
            if np.abs(np.linalg.norm(g, axis=1) - 1).max() > tol * 2:
                ctx.bad(base + "/quaternion/unit", "quaternion() is not of unit norm")
                return
            if np.abs(np.stack([H.quat_to_matrix(q) for q in g]) - Rw).max() > tol * 6:
                ctx.bad(base + "/quaternion/roundtrip", "quaternion_(q) then quaternion(): different rotation")
                return
            m = matrix_of(base)
            if m is None:
                return
            if np.abs(m[:, :, :3] - Rw).max() > tol * 6 or np.abs(m[:, :, 3]).max() > 0:
                ctx.bad(base + "/matrix/value", "matrix() after quaternion_(q) is not the rotation of q")
                return
            if ctx.call(base + "/matrix_", t.matrix_, tensor(Rw)) is None:
                return
            m2 = matrix_of(base + "/matrix_")
            if m2 is None:
                return
            if np.abs(m2[:, :, :3] - Rw).max() > tol * 12:
                ctx.bad(base + "/matrix_/roundtrip", f"matrix_(R) then matrix() differs from R by {np.abs(m2[:, :, :3] - Rw).max():.3e}")
                return
    elif cls_name in ("IsotropicScaling", "AnisotropicScaling"):
        ns = 1 if cls_name == "IsotropicScaling" else D
        menu = [0.5, 0.75, 1.0, 1.25, 2.0, 2.5] if kind == "param" else [0.25, 0.5, 1.0, 1.25, 3.0, 8.0, -2.0]
        for rep in range(len(menu)):
            vals = np.array([[menu[(rep + n * 2 + j * 3) % len(menu)] for j in range(ns)] for n in range(N)])
            ctx.acc.trace("getset")
            if ctx.call(base + "/scales_", t.scales_, tensor(vals)) is None:
                return
            got = ctx.call(base + "/scales", t.scales)
            if got is None:
                return
            ctx.acc.nontriv("getset", cls_name, D, kind, N, rep)
            g = _np(got)
            if g.shape != vals.shape:
                ctx.bad(base + "/scales/shape", f"scales() shape {g.shape}")
                return
            # exp(tanh(atanh(log s))) : relative error eps * (1 + atanh(log s)/ (1-log^2 s) ...) ; menu keeps |log s| <= 0.92
            if np.abs(g - vals).max() > tol * 16 * np.abs(vals).max():
                ctx.bad(base + "/scales/roundtrip", f"scales_({vals.tolist()}) then scales() = {np.round(g, 5).tolist()}")
                return
            m = matrix_of(base)
            if m is None:
                return
            E = np.zeros((N, D, D + 1))
            for n in range(N):
                E[n, np.arange(D), np.arange(D)] = np.broadcast_to(vals[n], (D,))
            if np.abs(m - E).max() > tol * 16 * np.abs(vals).max():
                ctx.bad(base + "/matrix/value", f"matrix() after scales_({vals.tolist()}) is not diag(scales)")
                return
    elif cls_name == "Shearing":
        na = 1 if D == 2 else 3
        menu = [-0.75, -0.3, 0.0, 0.2, 0.5, 0.7] if kind == "param" else [-1.2, -0.3, 0.0, 0.5, 1.0, 1.3]
        for rep in range(len(menu)):
            vals = np.array([[menu[(rep + n + j * 2) % len(menu)] for j in range(na)] for n in range(N)])
            ctx.acc.trace("getset")
            if ctx.call(base + "/angles_", t.angles_, tensor(vals)) is None:
                return
            got = ctx.call(base + "/angles", t.angles)
            if got is None:
                return
            ctx.acc.nontriv("getset", cls_name, D, kind, N, rep)
            g = _np(got)
            if g.shape != vals.shape or np.abs(g - _np(tensor(vals))).max() > tol * 16:
                ctx.bad(base + "/angles/roundtrip", f"angles_({vals.tolist()}) then angles() = {np.round(g, 5).tolist()}")
                return
            if matrix_of(base) is None:
                return
    elif cls_name == "Translation":
        for rep in range(3):
            vals = _dyadic(N * D, 20 + rep, seed).reshape(N, D)
            ctx.acc.trace("getset")
            if ctx.call(base + "/offset_", t.offset_, tensor(vals)) is None:
                return
            got = ctx.call(base + "/offset", t.offset)
            if got is None:
                return
            ctx.acc.nontriv("getset", cls_name, D, kind, N, rep)
            if not np.array_equal(_np(got), vals):
                ctx.bad(base + "/offset/roundtrip", "offset_(o) then offset() differs")
                return
            m = matrix_of(base)
            if m is None:
                return
            E = np.zeros((N, D, D + 1))
            E[:, np.arange(D), np.arange(D)] = 1
            E[:, :, D] = vals
            if np.abs(m - E).max() > 0:
                ctx.bad(base + "/matrix/value", "matrix() after offset_(o) is not [I | o]")
                return
    elif cls_name == "HomogeneousTransform":
        for rep in range(3):
            _, vals = make_operand("H(N,D,D+1)" if N == NB else "H(1,D,D+1)", D, 30 + rep, seed)
            ctx.acc.trace("getset")
            if ctx.call(base + "/matrix_", t.matrix_, tensor(vals)) is None:
                return
            ctx.acc.nontriv("getset", cls_name, D, kind, N, rep)
            m = matrix_of(base)
            if m is None:
                return
            if not np.array_equal(m, vals):
                ctx.bad(base + "/matrix_/roundtrip", "matrix_(M) then matrix() differs from M")
                return


TINY_ANGLES = [1e-4, 3e-4, 9e-4, 1.1e-3, 2e-3]  # around the theta^2 > 1e-6 branch of angle_axis_to_rotation_matrix
TINY_FNS = ["angle_axis_to_rotation_matrix", "angle_axis_to_quaternion", "quaternion_to_angle_axis", "rotation_matrix_to_angle_axis",
            "cycle:aa->R->aa", "cycle:aa->q->aa", "relation:R(w)R(-w)=I"]


def case_quat_tiny(case, ctx):
    """Rotation vectors just below / above the small-angle branch threshold (|w| = 1e-3), both signs, all lattice axes.
    A first-order error in this range is 2|w| >= 2e-4; the documented accuracy of the unmodified formulas is 1.3e-6
    (theta + 1e-6 in the denominator) resp. |w|^2/2 <= 5e-7 (Taylor branch), so the floor 4e-6 separates them by 50x."""
    from deepali.core import linalg as L

    fn, dk, form, seed = case["fn"], case["dtype"], case["form"], case["seed"]
    sig = f"C08/quat_tiny/fn={fn}/form={form}"
    ctx.acc.state("quat_tiny", fn, dk, form)
    rows = []
    for ax in axes_menu(seed):
        a = np.asarray(ax, float) / np.linalg.norm(ax)
        for th in TINY_ANGLES:
            for sgn in (1.0, -1.0):
                rows.append(a * th * sgn)
    AA = np.stack(rows)
    dtype = DT[dk]
    AAt = _np(torch.tensor(AA, dtype=dtype))  # the values the implementation actually receives
    Rw = np.stack([H.rodrigues(v) for v in AAt])
    Qw = np.stack([H.axis_angle_quat(v, np.linalg.norm(v)) for v in AAt])
    floor = 4e-6
    tol = C * EPS[dk] * 3
    batches = [slice(None)] if form == "batch" else [slice(i, i + 1) for i in range(0, len(AA), case.get("step", 1))]

    def T(x):
        return torch.tensor(x, dtype=dtype)

    def worst(got, exp):
        return float(np.abs(got - exp).max())

    for sl in batches:
        n = len(range(*sl.indices(len(AA))))
        ctx.acc.trace("quat", n=n)
        if fn == "angle_axis_to_rotation_matrix":
            res = ctx.call(sig, L.angle_axis_to_rotation_matrix, T(AA[sl]))
            if res is None:
                return
            if tuple(res.shape) != (n, 3, 3):
                ctx.bad(sig + "/shape", f"result {tuple(res.shape)}")
                return
            g = _np(res)
            e = worst(g, Rw[sl])
            if e > tol + floor:
                ctx.bad(sig + "/value", f"small rotation vectors -> matrix differs from Rodrigues by {e:.3e} > {tol + floor:.2e}")
                return
            # relation: (R - I) v = w x v to second order, i.e. the skew part of R is [w]_x
            skew = (g - np.transpose(g, (0, 2, 1))) / 2
            w_rec = np.stack([skew[:, 2, 1], skew[:, 0, 2], skew[:, 1, 0]], 1)
            if worst(w_rec, AAt[sl]) > tol + floor:
                ctx.bad(sig + "/first-order", f"skew part of R(w) differs from w by {worst(w_rec, AAt[sl]):.3e}: R(w) v - v != w x v")
                return
        elif fn == "relation:R(w)R(-w)=I":
            r1 = ctx.call(sig, L.angle_axis_to_rotation_matrix, T(AA[sl]))
            r2 = None if r1 is None else ctx.call(sig, L.angle_axis_to_rotation_matrix, T(-AA[sl]))
            if r2 is None:
                return
            res = r2
            g1, g2 = _np(r1), _np(r2)
            e = worst(np.einsum("nij,njk->nik", g1, g2), np.eye(3))
            e2 = worst(g2, np.transpose(g1, (0, 2, 1)))
            if e > 2 * (tol + floor) or e2 > 2 * (tol + floor):
                ctx.bad(sig + "/value", f"R(w) R(-w) deviates from I by {e:.3e}; R(-w) from R(w)^T by {e2:.3e}")
                return
        elif fn == "angle_axis_to_quaternion":
            res = ctx.call(sig, L.angle_axis_to_quaternion, T(AA[sl]))
            if res is None:
                return
            g = _np(res).reshape(-1, 4)
            if g.shape[0] != n or worst(g, Qw[sl]) > tol:
                ctx.bad(sig + "/value", f"small rotation vectors -> quaternion differs by {worst(g, Qw[sl]) if g.shape[0] == n else 'shape'}")
                return
        elif fn == "quaternion_to_angle_axis":
            res = ctx.call(sig, L.quaternion_to_angle_axis, T(Qw[sl]))
            if res is None:
                return
            g = _np(res).reshape(-1, 3)
            # q is rounded to dtype: w = vector part * 2 (1 + O(theta^2)); absolute error eps * 2
            if g.shape[0] != n or worst(g, AAt[sl]) > C * EPS[dk] * 2 + 1e-9:
                ctx.bad(sig + "/value", f"quaternion of a small rotation -> rotation vector differs by {worst(g, AAt[sl]) if g.shape[0] == n else 'shape'}")
                return
        elif fn == "rotation_matrix_to_angle_axis":
            res = ctx.call(sig, L.rotation_matrix_to_angle_axis, T(Rw[sl]))
            if res is None:
                return
            g = _np(res).reshape(-1, 3)
            # R is rounded to dtype: off-diagonal entries carry w with absolute error eps
            if g.shape[0] != n or worst(g, AAt[sl]) > C * EPS[dk] * 2 + 1e-9:
                ctx.bad(sig + "/value", f"matrix of a small rotation -> rotation vector differs by {worst(g, AAt[sl]) if g.shape[0] == n else 'shape'}")
                return
        elif fn == "cycle:aa->R->aa":
            r1 = ctx.call(sig, L.angle_axis_to_rotation_matrix, T(AA[sl]))
            res = None if r1 is None else ctx.call(sig, L.rotation_matrix_to_angle_axis, r1)
            if res is None:
                return
            g = _np(res).reshape(-1, 3)
            if g.shape[0] != n or worst(g, AAt[sl]) > C * EPS["f32" if dk == "f32" else "f64"] * 2 + floor:
                ctx.bad(sig + "/cycle", f"w -> matrix -> rotation vector returns a vector differing from w by {worst(g, AAt[sl]) if g.shape[0] == n else 'shape'} (|w| <= 2e-3)")
                return
        elif fn == "cycle:aa->q->aa":
            r1 = ctx.call(sig, L.angle_axis_to_quaternion, T(AA[sl]))
            res = None if r1 is None else ctx.call(sig, L.quaternion_to_angle_axis, r1)
            if res is None:
                return
            g = _np(res).reshape(-1, 3)
            if g.shape[0] != n or worst(g, AAt[sl]) > C * EPS[dk] * 2 + 1e-9:
                ctx.bad(sig + "/cycle", f"w -> quaternion -> rotation vector differs from w by {worst(g, AAt[sl]) if g.shape[0] == n else 'shape'}")
                return
        else:
            raise KeyError(fn)
        ctx.acc.outcome("quat_tiny", fn, dk, form, sl.start, tensor_bytes(res))
        for i in range(*sl.indices(len(AA))):
            ctx.acc.nontriv("quat_tiny", fn, dk, i)


REUSE_FNS = ["as_homogeneous_matrix", "homogeneous_matrix:none", "homogeneous_matrix:scalar", "homogeneous_matrix:(D,)", "homogeneous_matrix:(lead,D)",
             "homogeneous_matmul", "hmm", "homogeneous_transform", "homogeneous_transform[vectors]"]


def case_reuse(case, ctx):
    """The same operand objects used twice: (1) two identical calls return bit-identical results; (2) after the operand
    went through as_homogeneous_matrix / homogeneous_matrix(+offset) / a composition, composing and applying the SAME
    object still equals sequential application of the transformation it was given as."""
    from deepali.core import linalg as L

    D, f, fn, seed = case["D"], case["form"], case["fn"], case["seed"]
    t, vt = make_operand(f, D, 7, seed, "f32")
    b, vb = make_operand("A(D,D)", D, 8, seed, "f32")
    p, vp = _points("(D,)", D, seed, "f32")
    sig = f"C08/reuse/fn={fn}/form={f}"
    ctx.acc.state("reuse", D, f, fn)
    ctx.acc.trace("reuse", depth=4)
    lead = tuple(t.shape[:-2]) if t.ndim > 1 else ()
    if fn.startswith("homogeneous_matrix"):
        k = fn.split(":")[1]
        off = {"none": None, "scalar": torch.tensor(1.25), "(D,)": torch.tensor(_dyadic(D, 13, seed), dtype=torch.float32),
               "(lead,D)": torch.tensor(_dyadic(int(np.prod(lead + (D,))), 14, seed).reshape(lead + (D,)), dtype=torch.float32)}[k]
        f1 = lambda: ctx.call(sig, L.homogeneous_matrix, t, off, restore=False)  # noqa: E731
    elif fn == "as_homogeneous_matrix":
        f1 = lambda: ctx.call(sig, L.as_homogeneous_matrix, t, restore=False)  # noqa: E731
    elif fn in ("homogeneous_matmul", "hmm"):
        f1 = lambda: ctx.call(sig, getattr(L, fn), t, b, restore=False)  # noqa: E731
    else:
        f1 = lambda: ctx.call(sig, L.homogeneous_transform, t, p, vectors=fn.endswith("[vectors]"), restore=False)  # noqa: E731
    r1 = f1()
    if r1 is None:
        return
    fp1 = tensor_bytes(r1)  # snapshot now: the result may alias the operand
    snap1 = r1.detach().clone()
    r2 = f1()
    if r2 is None:
        return
    ctx.acc.outcome("reuse", D, f, fn, fp1)
    ctx.acc.nontriv("reuse", D, f, fn)
    if tensor_bytes(r2) != fp1:
        ctx.bad(sig + "/second-call-differs", f"D={D} form {f}: two identical calls with the same operand objects returned different results (max diff {float((r2.detach().double() - snap1.double()).abs().max()):.3g})")
    # the operand object, after having been used, composed with b and applied to p == sequential application of the GIVEN maps
    exp_full = H.compose(H.full(vt), H.full(vb))
    fexp = _expected_points(exp_full, vp)
    c = ctx.call(sig + "/hmm-after-use", L.hmm, t, b, restore=False)
    if c is None or fexp is None:
        return
    q = ctx.call(sig + "/apply-after-use", L.homogeneous_transform, c, p, restore=False)
    if q is None:
        return
    scale = (float(np.abs(exp_full).max()) + 1) * (float(np.abs(vp).max()) + 1) * D * D
    _cmp(ctx, sig + "/operand-map-changed", _np(q), fexp(False), C * EPS["f32"] * scale, f"D={D} form {f}: hmm(t, b) applied to points after t was used in {fn}", kind="value")
    s1 = ctx.call(sig + "/sequential-after-use", L.homogeneous_transform, b, p, restore=False)
    s2 = None if s1 is None else ctx.call(sig + "/sequential-after-use", L.homogeneous_transform, t, s1, restore=False)
    if s2 is not None and s2.numel() == fexp(False).size:
        _cmp(ctx, sig + "/operand-map-changed/sequential", _np(s2).reshape(fexp(False).shape), fexp(False), C * EPS["f32"] * scale, f"D={D} form {f}: t applied after b, after t was used in {fn}", kind="value")


# ---------------------------------------------------------------------------
# memory layout of operand tensors
LAYOUTS = ["transposed", "sliced", "expanded"]


def layout_targets(seed):
    """name -> (callable, [contiguous operand tensors], kwargs). Every operand with a leading batch dim has size NB there."""
    import deepali.spatial as S
    from deepali.core import affine as A
    from deepali.core import linalg as L

    T = {}
    kinds = {"t": "t(N,D,1)", "A": "A(N,D,D)", "H": "H(N,D,D+1)"}
    for D in (3, 2):
        for fn in ("homogeneous_matmul", "hmm"):
            if D == 2 and fn != "hmm":
                continue
            for ka, fa in kinds.items():
                for kb, fb in kinds.items():
                    a, _ = make_operand(fa, D, 41, seed)
                    b, _ = make_operand(fb, D, 42, seed)
                    T[f"{fn}[{ka}x{kb},D={D}]"] = (getattr(L, fn), [a, b], {})
        for fa, fb in (("t(D,)", "H(D,D+1)"), ("H(D,D+1)", "t(D,)"), ("A(D,D)", "H(D,D+1)"), ("H(D,D+1)", "A(D,D)")):
            a, _ = make_operand(fa, D, 43, seed)
            b, _ = make_operand(fb, D, 44, seed)
            T[f"homogeneous_matmul[{fa}x{fb},D={D}]"] = (L.homogeneous_matmul, [a, b], {})
        for k, f in kinds.items():
            t, _ = make_operand(f, D, 45, seed)
            p, _ = _points("(N,M,D)", D, seed, "f32")
            T[f"homogeneous_transform[{k},(N,M,D),D={D}]"] = (L.homogeneous_transform, [t, p], {})
            T[f"as_homogeneous_matrix[{k},D={D}]"] = (L.as_homogeneous_matrix, [t], {})
            off = torch.tensor(_dyadic(NB * D, 46, seed).reshape(NB, D), dtype=torch.float32)
            T[f"homogeneous_matrix+offset[{k},D={D}]"] = (L.homogeneous_matrix, [t, off], {})
        t, _ = make_operand("H(D,D+1)", D, 47, seed)
        p, _ = _points("(M,D)", D, seed, "f32")
        T[f"homogeneous_transform[H(D,D+1),(M,D),vectors,D={D}]"] = (L.homogeneous_transform, [t, p], {"vectors": True})
        T[f"transform_points[H(D,D+1),(M,D),D={D}]"] = (A.transform_points, [t, p], {})
    am = angle_menu(seed)
    ang = torch.tensor([[am[1], am[5], am[3]], [am[7], am[3], am[1]], [am[5], am[7], am[8]]], dtype=torch.float32)
    for order in ("xyz", "zxz", "yzy"):
        T[f"euler_rotation_matrix[{order}]"] = (A.euler_rotation_matrix, [ang], {"order": order, "homogeneous": True})
    T["euler_rotation_matrix[2D]"] = (A.euler_rotation_matrix, [ang[:, :1].contiguous()], {})
    for order in ("zxz", "xzx"):
        R = torch.tensor(np.stack([H.euler(order, r) for r in _np(ang)]), dtype=torch.float32)
        T[f"euler_rotation_angles[{order},(N,3,3)]"] = (A.euler_rotation_angles, [R], {"order": order})
        T[f"euler_rotation_angles[{order},(N,3,4)]"] = (A.euler_rotation_angles, [torch.cat([R, torch.zeros(NB, 3, 1)], 2)], {"order": order})
    R2 = torch.tensor(np.stack([H.rot2(a) for a in (am[1], am[5], am[7])]), dtype=torch.float32)
    T["euler_rotation_angles[2D]"] = (A.euler_rotation_angles, [R2], {})
    lat = quat_lattice(seed)
    pick = [lat[i] for i in (38, 45, 56)]  # generic axes, angles 0.3 .. 2.9, both signs
    Q = torch.tensor(np.stack([q for q, _, _, _ in pick]), dtype=torch.float32)
    Rq = torch.tensor(np.stack([H.quat_to_matrix(q) for q, _, _, _ in pick]), dtype=torch.float32)
    AA = torch.tensor(np.stack([np.asarray(ax, float) / np.linalg.norm(ax) * a for _, _, a, ax in pick]), dtype=torch.float32)
    for name, arg in (("quaternion_to_rotation_matrix", Q), ("normalize_quaternion", Q * 2.5), ("quaternion_to_angle_axis", Q), ("quaternion_exp_to_log", Q),
                      ("rotation_matrix_to_quaternion", Rq), ("rotation_matrix_to_angle_axis", Rq), ("angle_axis_to_quaternion", AA),
                      ("angle_axis_to_rotation_matrix", AA), ("quaternion_log_to_exp", AA / 2)):
        T[name] = (getattr(L, name), [arg], {})
    Rt = Rq.transpose(-1, -2).contiguous()  # values of the inverse rotations

    def setter(cls_name, D, method, kind, **ckw):
        def run(arg):
            t = getattr(S, cls_name)(_tgrid(D), groups=NB, params=(kind == "param"), **ckw)
            getattr(t, method)(arg)
            return t.matrix()

        return run

    for kind in ("param", "buffer"):
        T[f"QuaternionRotation.matrix_[{kind}]"] = (setter("QuaternionRotation", 3, "matrix_", kind), [Rt], {})
        T[f"QuaternionRotation.quaternion_[{kind}]"] = (setter("QuaternionRotation", 3, "quaternion_", kind), [Q], {})
        T[f"EulerRotation.matrix_[{kind}]"] = (setter("EulerRotation", 3, "matrix_", kind), [T["euler_rotation_angles[zxz,(N,3,3)]"][1][0]], {})
        T[f"EulerRotation.angles_[{kind}]"] = (setter("EulerRotation", 3, "angles_", kind), [ang], {})
        T[f"EulerRotation.matrix_[2D,{kind}]"] = (setter("EulerRotation", 2, "matrix_", kind), [R2], {})
        T[f"AnisotropicScaling.scales_[{kind}]"] = (setter("AnisotropicScaling", 3, "scales_", kind), [torch.tensor([[0.5, 1.25, 2.0], [0.75, 2.0, 0.5], [1.25, 0.75, 2.5]])], {})
        T[f"Shearing.angles_[{kind}]"] = (setter("Shearing", 3, "angles_", kind), [torch.tensor([[0.2, -0.3, 0.5], [0.7, 0.2, -0.75], [-0.3, 0.5, 0.2]])], {})
        T[f"Translation.offset_[{kind}]"] = (setter("Translation", 3, "offset_", kind), [torch.tensor(_dyadic(NB * 3, 48, seed).reshape(NB, 3), dtype=torch.float32)], {})
        T[f"HomogeneousTransform.matrix_[{kind}]"] = (setter("HomogeneousTransform", 3, "matrix_", kind), [make_operand("H(N,D,D+1)", 3, 49, seed)[0]], {})
    return T


def layout_cases(seed):
    from ref.layout import applicable

    out = []
    for name, (_, ops, _) in layout_targets(seed).items():
        which = [str(i) for i in range(len(ops))] + (["all"] if len(ops) > 1 else [])
        for w in which:
            idx = range(len(ops)) if w == "all" else [int(w)]
            for form in LAYOUTS:
                if form == "expanded":
                    ok = all(ops[i].ndim >= 2 and ops[i].shape[0] == NB for i in idx)
                else:
                    ok = all(applicable(ops[i], form) for i in idx)
                if ok:
                    out.append({"sub": "layout", "target": name, "operand": w, "layout": form, "seed": seed})
    return out


def case_layout(case, ctx):
    """Same values, different memory layout of the operand(s): no exception, same result as with contiguous operands, operand unchanged."""
    from ref.layout import relayout

    name, w, form, seed = case["target"], case["operand"], case["layout"], case["seed"]
    fn, ops, kw = layout_targets(seed)[name]
    sub = name.split("[")[0]
    sig = f"C08/layout/fn={sub}/target={name}/operand={w}/layout={form}"
    ctx.acc.state("layout", name, w, form)
    ctx.acc.trace("layout")
    idx = list(range(len(ops))) if w == "all" else [int(w)]
    ref_ops, tst_ops = [], []
    for i, o in enumerate(ops):
        if i in idx:
            if form == "expanded":
                ref_ops.append(relayout(o[0], "repeat", NB))
                tst_ops.append(relayout(o[0], "expanded", NB))
            else:
                ref_ops.append(relayout(o, "contig"))
                tst_ops.append(relayout(o, form))
        else:
            ref_ops.append(o.clone())
            tst_ops.append(o.clone())
    for i in idx:
        if tst_ops[i].is_contiguous() and form != "expanded" and tst_ops[i].numel() > 1:
            ctx.acc.undef("layout:variant is contiguous for this shape")
            return
    ref = ctx.call(f"C08/layout/fn={sub}/target={name}/operand={w}/layout=contig", fn, *ref_ops, **kw)
    if ref is None:
        return
    res = ctx.call(sig, fn, *tst_ops, **kw)
    if res is None:
        return
    ctx.acc.outcome("layout", name, w, form, tensor_bytes(res))
    ctx.acc.nontriv("layout", name, w, form)
    if not isinstance(res, torch.Tensor) or not isinstance(ref, torch.Tensor):
        ctx.bad(sig + "/type", f"returned {type(res).__name__}")
        return
    scale = float(ref.detach().abs().max()) + 1.0
    _cmp(ctx, sig, _np(res), _np(ref), C * EPS["f32"] * scale, f"{name}: operand {w} given as {form} view vs contiguous")


SUBS = {
    "layout": case_layout,
    "quat_tiny": case_quat_tiny,
    "reuse": case_reuse,
    "matmul": case_matmul,
    "matmul3": case_matmul3,
    "transform": case_transform,
    "compose_apply": case_compose_apply,
    "as_matrix": case_as_matrix,
    "euler": case_euler,
    "euler2d": case_euler2d,
    "euler_order": case_euler_order,
    "euler_angles": case_euler_angles,
    "quat": case_quat,
    "getset": case_getset,
}

QUAT_FNS = ["quaternion_to_rotation_matrix", "quaternion_to_rotation_matrix[scaled]", "normalize_quaternion", "quaternion_to_angle_axis", "quaternion_exp_to_log",
            "rotation_matrix_to_quaternion", "rotation_matrix_to_angle_axis", "angle_axis_to_quaternion", "angle_axis_to_rotation_matrix", "quaternion_log_to_exp",
            "cycle:aa->R->aa->R", "cycle:q->R->q->R", "cycle:q->aa->q", "cycle:q->log->exp"]


# ---------------------------------------------------------------------------
def cases_matmul(tier, seed):
    out = []
    for D in (2, 3):
        for fa in FORMS:
            for fb in FORMS:
                for dk in ("f32", "f64", "int-first", "int-both"):
                    out.append({"sub": "matmul", "D": D, "a": fa, "b": fb, "dtype": dk, "seed": seed})
    return out


def cases_matmul3(tier, seed):
    forms = FORMS if tier == "thorough" else FORMS_REDUCED
    return [{"sub": "matmul3", "D": D, "forms": list(fs), "seed": seed} for D in (2, 3) for fs in itertools.product(forms, repeat=3)]


def cases_transform(tier, seed):
    out = []
    for D in (2, 3):
        for ft in FORMS:
            for pf in POINT_FORMS:
                for dk in ("f32", "f64", "i64"):
                    out.append({"sub": "transform", "D": D, "t": ft, "p": pf, "dtype": dk, "seed": seed, "aliases": dk == "f32"})
        for fa in FORMS:
            for fb in FORMS:
                for pf in (POINT_FORMS if tier == "thorough" else ["(D,)", "(M,D)", "(N,M,D)"]):
                    out.append({"sub": "compose_apply", "D": D, "a": fa, "b": fb, "p": pf, "seed": seed})
    return out


def cases_as_matrix(tier, seed):
    out = []
    for D in (2, 3):
        for f in FORMS:
            for mode in ("as_homogeneous_matrix", "as_homogeneous_matrix[f64]", "as_homogeneous_tensor", "homogeneous_matrix:none", "homogeneous_matrix:scalar", "homogeneous_matrix:(D,)", "homogeneous_matrix:(lead,D)"):
                out.append({"sub": "as_matrix", "D": D, "form": f, "mode": mode, "seed": seed})
    return out


def cases_reuse(tier, seed):
    return [{"sub": "reuse", "D": D, "form": f, "fn": fn, "seed": seed} for D in (2, 3) for f in FORMS for fn in REUSE_FNS]


def cases_euler(tier, seed):
    out = []
    notas = ["lower", "upper", "R-o"]
    for order in H.ORDERS:
        for nota in notas:
            for hom in (False, True):
                for dk in ("f32", "f64"):
                    out.append({"sub": "euler", "order": order, "notation": nota, "form": "(N,3)", "homogeneous": hom, "dtype": dk, "seed": seed})
                out.append({"sub": "euler", "order": order, "notation": nota, "form": "(2,N,3)", "homogeneous": hom, "dtype": "f32", "seed": seed})
                sub = None if tier == "thorough" else [0, 4, 6, 8]
                for form in ("(3,)", "(1,3)"):
                    for dk in (("f32", "f64") if tier == "thorough" else ("f32",)):
                        out.append({"sub": "euler", "order": order, "notation": nota, "form": form, "homogeneous": hom, "dtype": dk, "seed": seed, "sel": sub})
        out.append({"sub": "euler", "order": order, "notation": "lower", "form": "list", "homogeneous": False, "dtype": "f32", "seed": seed, "sel": [1, 4, 7]})
        out.append({"sub": "euler", "order": order, "notation": "upper", "form": "(N,3)", "homogeneous": True, "dtype": "f32", "seed": seed, "alias": True})
    for hom in (False, True):
        out.append({"sub": "euler", "order": "ZXZ", "notation": "default", "form": "(N,3)", "homogeneous": hom, "dtype": "f32", "seed": seed})
        out.append({"sub": "euler", "order": "ZXZ", "notation": "default", "form": "(3,)", "homogeneous": hom, "dtype": "f32", "seed": seed, "sel": [0, 4, 6, 8]})
        for form in ("float", "0-dim", "(1,)", "(1,1)", "(N,1)"):
            for dk in ("f32", "f64"):
                for order in (None, "zxz"):
                    out.append({"sub": "euler2d", "form": form, "homogeneous": hom, "dtype": dk, "seed": seed, "order": order})
    for order in H.ORDERS:
        for nota in ("lower", "upper", "R-o", "mixed", "ndim2"):
            out.append({"sub": "euler_order", "order": order, "notation": nota})
    out.append({"sub": "euler_order", "order": "ZXZ", "notation": "default"})
    return out


def cases_euler_angles(tier, seed):
    out = []
    for order in H.ORDERS:
        for form in ("(N,3,3)", "(N,3,4)", "(3,3)"):
            out.append({"sub": "euler_angles", "order": order, "form": form, "seed": seed, "notation": "lower" if form != "(N,3,4)" else "R-o"})
    out.append({"sub": "euler_angles", "order": "ZXZ", "form": "(N,3,3)", "seed": seed, "notation": "default"})
    for form in ("(D,D)", "(D,D+1)", "(1,D,D)", "(N,D,D)"):
        out.append({"sub": "euler_angles", "order": "2D", "form": form, "seed": seed, "notation": "default"})
    return out


def cases_quat(tier, seed):
    out = []
    for fn in QUAT_FNS:
        out.append({"sub": "quat", "fn": fn, "form": "batch", "seed": seed})
        out.append({"sub": "quat", "fn": fn, "form": "single", "seed": seed, "step": 1 if tier == "thorough" else 3})
    for fn in TINY_FNS:
        for dk in ("f32", "f64"):
            out.append({"sub": "quat_tiny", "fn": fn, "dtype": dk, "form": "batch", "seed": seed})
            out.append({"sub": "quat_tiny", "fn": fn, "dtype": dk, "form": "single", "seed": seed, "step": 1 if tier == "thorough" else 4})
    return out


def cases_layout(tier, seed):
    return layout_cases(seed)


def cases_getset(tier, seed):
    out = []
    for kind in ("param", "buffer"):
        for N in (1, NB):
            for D in (2, 3):
                for cls in ("EulerRotation", "IsotropicScaling", "AnisotropicScaling", "Shearing", "Translation", "HomogeneousTransform"):
                    out.append({"sub": "getset", "cls": cls, "D": D, "kind": kind, "N": N, "seed": seed, "reps": 9 if tier == "thorough" else 4})
            for order in ("XZX", "zxz", "Rx o Rz o Rx", "ZYX", "xyz", "YZY"):
                out.append({"sub": "getset", "cls": "EulerRotation", "D": 3, "kind": kind, "N": N, "seed": seed, "order": order, "reps": 9 if tier == "thorough" else 4})
            out.append({"sub": "getset", "cls": "QuaternionRotation", "D": 3, "kind": kind, "N": N, "seed": seed, "reps": 24 if tier == "thorough" else 8})
    return out


GENERATORS = [
    ("matmul", cases_matmul, 40),
    ("matmul3", cases_matmul3, 60),
    ("transform", cases_transform, 40),
    ("as_matrix", cases_as_matrix, 20),
    ("reuse", cases_reuse, 30),
    ("euler", cases_euler, 6),
    ("euler_angles", cases_euler_angles, 4),
    ("quat", cases_quat, 2),
    ("getset", cases_getset, 4),
    ("layout", cases_layout, 60),
]


def bounds(tier):
    b = {"D": [2, 3], "operand_forms": len(FORMS), "batch_N": NB, "euler_orders": 12, "notations": 3, "angle_lattice": 9 ** 3, "point_forms": len(POINT_FORMS),
         "quaternion_lattice": len(quat_lattice(0)), "matmul3_forms": len(FORMS if tier == "thorough" else FORMS_REDUCED),
         "layout_forms": ["contig"] + LAYOUTS, "layout_targets": len(layout_targets(0))}
    for name, gen, _ in GENERATORS:
        b["cases_" + name] = len(gen(tier, 0))
    return b


def shards(tier, seed):
    out = []
    for name, gen, per in GENERATORS:
        n = len(gen(tier, seed))
        for lo in range(0, n, per):
            out.append({"tier": tier, "seed": seed, "gen": name, "lo": lo, "hi": min(n, lo + per)})
    return out


def run_case(case, acc):
    ctx = _Ctx(acc)
    SUBS[case["sub"]](case, ctx)
    return ctx.out


def run_shard(shard):
    acc = Acc()
    gen = {n: g for n, g, _ in GENERATORS}[shard["gen"]]
    for case in gen(shard["tier"], shard["seed"])[shard["lo"] : shard["hi"]]:
        problems = run_case(case, acc)
        seen = set()
        for sig, detail in problems:
            if sig not in seen:
                seen.add(sig)
                acc.violation(sig, case, detail, size=3 if case["sub"] == "matmul3" else (2 if case["sub"] == "compose_apply" else 1))
        if not problems and len(acc.samples) < 1:
            acc.sample({"case": case, "verdict": "held"})
    return acc


def replay(case):
    return run_case(case, Acc())
