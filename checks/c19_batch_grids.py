"""C19 - batches keep one correctly aligned grid per image under tensor operations.

Transition system: state = a real deepali value (ImageBatch / Image / FlowFields / FlowField whose items have
DISTINCT grids and data that encodes its own provenance) kept in lock step with the same program executed on
plain torch tensors (which decides whether a program is in the domain) and with the scalar affine map
(alpha, beta) the program has applied to all values so far.  Alphabet = ~170 torch operations / argument
forms.  All programs up to the tier's length are executed on fresh values; every result (and every element of
a tuple / list result) that is one of the four types is judged from its own data:

  (a) structure   one Grid per batch entry, grid.shape == spatial shape of the data          (always)
  (b) provenance  while (alpha, beta) is known every entry is decoded channel by channel; an entry all of
                  whose non-constant channels are exact copies of channels of ONE source item, voxel order
                  intact, must carry that item's grid, and a flow type must still carry the source axes;
                  anything else (mixtures, moved voxels, arithmetic) is UNDEFINED for (b)
  (c)             = (a): a result that does not fit the inheritable grids may only be a plain Tensor
  (d) copy        copy.copy / copy.deepcopy / pickle / torch.save+load preserve type, data, grids, axes
  raises          the same program runs on plain tensors but the deepali value raises

A plain-Tensor result is never a violation (the statement only speaks about results of the four types).
"""
from __future__ import annotations

import copy
import io
import pickle

import numpy as np
import torch
from torch import Tensor
from torch.nn import functional as F

from mc.core import Acc, exc_text, guarded, h64, tensor_bytes

# every shard runs in a freshly forked process: load the heavy modules once in the parent, not once per shard
import deepali.data  # noqa: F401,E402

PROPERTY = "C19"
RULE = (
    "every program (sequence of torch operations, tuple results continued from their first / second / last "
    "element) up to the tier length over the listed alphabet, from each of the 4 initial values per dimension, "
    "executed on fresh deepali values and in lock step on plain tensors; distinct = hash of (type, dtype, shape, "
    "data bytes, which source grid every entry carries, axes) of the result; non-trivial = the result is again "
    "one of the four image types (a grid had to be chosen for it). "
    "family: every program [observe (index / iterate / tensor() / batch(), result discarded), copy / deepcopy / pickle / "
    "torch.save / clone, in-place elementwise op, observe] in the orders PCIO, CPIO, PICO from every initial value. "
    "alias: every (value with repeated or shared Grid objects, deep copy form incl. several objects copied in ONE "
    "deepcopy / pickle call, side edited in place (original | copy), edit (5 grid setters on the grid of entry 0, 1, last; "
    "2 data edits)); the other side is read as a whole, by indexing and by iteration before and after the edit. "
    "layout: the same program judgement from initial values whose wrapped tensor is a non-contiguous view (transposed spatial "
    "axes, step-sliced, stride-0 expanded batch of one item) over a 64-op first menu and a 12-op second menu"
)
EXPLANATION = (
    "bounded exhaustive exploration of torch-op programs (incl. in-place ops, setters, copies) on tagged image batches, "
    "provenance decoded from result data; two-object copy/edit/read histories on values with shared Grid objects"
)
ASSUMPTIONS = [
    "CPU tensors; integer-valued float32 data so that x*2, x+1, -x and dtype casts are exact",
    "items of a batch have grossly different grids (origin, spacing, signed-permutation direction, align_corners)",
    "an entry is judged for provenance only if every non-constant channel is a bit-exact copy of a channel of one source item",
    "operations whose plain-tensor execution raises are outside the domain (not enabled)",
    "programs are not continued from plain-Tensor results nor from results that already violated the property",
    "values of an entry are expected under a map reachable for its provenance: the composition of all elementwise steps, or - for "
    "entries of the untouched `other` operand - of the steps applied since it was combined; an entry that decodes only under a map "
    "that an IN-PLACE step of the program has overwritten in the value itself holds stale data (problem stale-data)",
    "alias histories: a deep copy (copy.deepcopy, pickle, torch.save/load) preserves type, data, grids and axes durably: what a "
    "reader of one side sees must not change when the other side is edited in place; shallow copies are not judged",
    "in-place SHAPE operations (transpose_, squeeze_, ...) return plain tensors and are outside the statement: not in the alphabet",
    "layout: the plain-tensor twin has the SAME memory layout, so an operation torch itself refuses on that layout (e.g. view) is not enabled",
]
MIN_NONTRIVIAL = {"quick": 30000, "thorough": 60000}  # measured quick 60157
MIN_OUTCOMES = {"quick": 25000, "thorough": 50000}  # measured quick 53887
MIN_SUB_TRACES = {"programs": 60000, "copy": 4000, "family": 20000, "alias": 2500, "layout": 2000}  # measured quick 120822 / 8162 / 39420 / 5076

KINDS = ("ImageBatch", "Image", "FlowFields", "FlowField")
# batches whose item grids contain pairs that compare equal under Grid.__eq__ (allclose, align_corners ignored) without
# being identical: same geometry with the other flag, origin shifted by 1e-5 (positions (0,1), (1,2), (0,N-1))
KINDS_NEAR = ("ImageBatch~near", "FlowFields~near")
NEAR_SHIFT = 1e-5


# ---------------------------------------------------------------------------
# universe: source items with distinct integer grids and self-describing data
def _specs(D):
    """Spatial tensor shape and grid descriptions: one grid per source item plus ONE extra grid (last entry, "X")
    that belongs to no item and is only ever attached by the in-place setter grid_().
    Batch sizes (5 for D=2, 6 for D=3) differ from the tensor ndim (4, 5), the channel counts and every spatial size."""
    if D == 2:
        shape = (6, 7)  # tensor order (Y, X)
        grids = [
            dict(spacing=(1, 1), origin=(0, 0), direction=((1, 0), (0, 1)), ac=True),
            dict(spacing=(2, 3), origin=(10, -7), direction=((-1, 0), (0, 1)), ac=False),
            dict(spacing=(1, 2), origin=(-20, 40), direction=((0, 1), (1, 0)), ac=True),
            dict(spacing=(3, 1), origin=(33, 15), direction=((1, 0), (0, -1)), ac=True),
            dict(spacing=(2, 2), origin=(-50, -60), direction=((0, -1), (1, 0)), ac=False),
            dict(spacing=(4, 5), origin=(70, 80), direction=((-1, 0), (0, -1)), ac=True),  # X
        ]
    else:
        shape = (4, 7, 8)  # (Z, Y, X)
        grids = [
            dict(spacing=(1, 1, 1), origin=(0, 0, 0), direction=((1, 0, 0), (0, 1, 0), (0, 0, 1)), ac=True),
            dict(spacing=(2, 3, 1), origin=(10, -7, 5), direction=((-1, 0, 0), (0, 1, 0), (0, 0, 1)), ac=False),
            dict(spacing=(1, 2, 2), origin=(-20, 40, 3), direction=((0, 1, 0), (1, 0, 0), (0, 0, 1)), ac=True),
            dict(spacing=(3, 1, 2), origin=(7, 8, -9), direction=((1, 0, 0), (0, 0, -1), (0, 1, 0)), ac=True),
            dict(spacing=(2, 2, 3), origin=(-50, -60, 11), direction=((0, -1, 0), (1, 0, 0), (0, 0, 1)), ac=False),
            dict(spacing=(1, 3, 3), origin=(25, -35, 45), direction=((0, 0, 1), (0, 1, 0), (1, 0, 0)), ac=True),
            dict(spacing=(4, 5, 2), origin=(70, 80, -90), direction=((-1, 0, 0), (0, -1, 0), (0, 0, 1)), ac=True),  # X
        ]
    return shape, grids


class Universe:
    """Source items of one dimension D: grid specs, channel arrays (float64 integers), lookup table."""

    _cache: dict = {}

    def __init__(self, D, near=False):
        self.D = D
        self.near = near
        self.shape, self.gspecs = _specs(D)
        self.N = len(self.gspecs) - 1  # the last grid ("X") belongs to no item
        # grids actually attached to the items (the DATA always encodes the distinct nominal geometry `gspecs`)
        self.rspecs = [dict(g) for g in self.gspecs]
        if near:
            def shifted(g):
                o = list(g["origin"])
                o[0] = o[0] + NEAR_SHIFT
                return dict(g, origin=tuple(o))

            g0 = self.gspecs[0]
            self.rspecs[1] = dict(g0, ac=not g0["ac"])
            self.rspecs[2] = shifted(self.rspecs[1])
            self.rspecs[self.N - 1] = shifted(g0)
        self._expected = {}
        n = int(np.prod(self.shape))
        lin = np.arange(n, dtype=np.float64).reshape(self.shape)
        # index lattice with x first: idx[..., 0] = x index = last tensor dim
        axes = np.meshgrid(*[np.arange(s, dtype=np.float64) for s in self.shape], indexing="ij")
        idx = np.stack(axes[::-1], axis=-1)  # (..., D) in (x, y[, z]) order
        self.img_channels = []  # per item: list of arrays
        self.flow_channels = []
        for i, g in enumerate(self.gspecs[: self.N]):
            R = np.array(g["direction"], dtype=np.float64)
            s = np.array(g["spacing"], dtype=np.float64)
            o = np.array(g["origin"], dtype=np.float64)
            world = idx * s @ R.T + o  # (..., D)
            tag = 1000.0 * (i + 1) + lin
            tag2 = 500.0 * (i + 1) + 7.0 * lin[(slice(None, None, -1),) * D]
            w = [world[..., d] for d in range(D)]
            self.img_channels.append([tag] + w + [tag2])
            self.flow_channels.append([tag] + w[: D - 1])
        self._templates = {}
        self.table = {}  # exact channel array -> (item, channel)
        self.bag = {}  # sorted values of a channel -> item (voxels rearranged inside one item)
        for i in range(self.N):
            for fam, chans in (("img", self.img_channels[i]), ("flow", self.flow_channels[i])):
                for c, a in enumerate(chans):
                    assert np.all(a == np.round(a)) and a.min() != a.max()
                    for tab, key in ((self.table, a.tobytes()), (self.bag, np.sort(a.ravel()).tobytes())):
                        prev = tab.get(key)
                        assert prev is None or prev[0] == i, "source channels must identify their item"
                        tab[key] = (i, c)

    @classmethod
    def get(cls, D, near=False):
        if (D, near) not in cls._cache:
            cls._cache[(D, near)] = Universe(D, near)
        return cls._cache[(D, near)]

    # which items an initial value holds
    def items(self, kind, which):
        if kind in ("ImageBatch", "FlowFields"):
            base = list(range(self.N))
            return base if which == "base" else base[-1:] + base[:-1]
        if kind == "Image":
            return [1] if which == "base" else [0]
        return [2] if which == "base" else [0]

    def axes_name(self, kind):
        return {"FlowFields": "world", "FlowField": "grid"}.get(kind)

    def data(self, kind, which):
        fam = self.img_channels if kind in ("ImageBatch", "Image") else self.flow_channels
        arr = np.stack([np.stack(fam[i], axis=0) for i in self.items(kind, which)], axis=0)
        if kind in ("Image", "FlowField"):
            arr = arr[0]
        return torch.from_numpy(arr.astype(np.float32))

    def real_grid(self, i):
        """Fresh Grid object for item i.  Built once through the public constructor, then reproduced by copying the
        slot values of that private template (never handed to any operation) - 20x cheaper, same bits."""
        from deepali.core.grid import Grid

        tpl = self._templates.get(i)
        if tpl is None:
            g = self.rspecs[i]
            tpl = Grid(
                size=tuple(reversed(self.shape)),
                spacing=tuple(float(v) for v in g["spacing"]),
                origin=tuple(float(v) for v in g["origin"]),
                direction=tuple(tuple(float(v) for v in row) for row in g["direction"]),
                align_corners=g["ac"],
            )
            self._templates[i] = tpl
        out = Grid.__new__(Grid)
        for name in Grid.__slots__:
            v = getattr(tpl, name)
            setattr(out, name, v.clone() if isinstance(v, Tensor) else v)
        return out

    def build(self, kind, which="base", plain=False, layout=None):
        """layout (base value only): the wrapped tensor is a non-contiguous VIEW with the same values
        (ref/layout.py: transposed = spatial-axes transposed view of a transposed copy, sliced = step-sliced view of a
        buffer with garbage in between, expanded = stride-0 batch of N times item 0, every entry with its own grid-0 object)."""
        data = self.data(kind, which)
        items = self.items(kind, which)
        if layout and which == "base":
            from ref.layout import relayout

            if layout == "expanded":
                if kind not in ("ImageBatch", "FlowFields"):
                    raise ValueError("expanded layout is defined for batches only")
                items = [0] * self.N
                data = relayout(data[0], "expanded", self.N)
            else:
                data = relayout(data, layout)
            assert not data.is_contiguous(), "layout variant must not be contiguous"
        if plain:
            return data
        from deepali.core.grid import Axes
        from deepali.data import FlowField, FlowFields, Image, ImageBatch

        grids = [self.real_grid(i) for i in items]
        if kind == "ImageBatch":
            return ImageBatch(data, grids)
        if kind == "Image":
            return Image(data, grids[0])
        if kind == "FlowFields":
            return FlowFields(data, grids, Axes(self.axes_name(kind)))
        return FlowField(data, grids[0], Axes(self.axes_name(kind)))

    def grid_attrs(self, i):
        """Attributes of the grid attached to item i (i == N: the extra grid X), observed on the private template that
        the public constructor built: exact float32 values, so that results can be compared bit by bit."""
        if i not in self._expected:
            self.real_grid(i)
            self._expected[i] = observe_grid(self._templates[i])
        return self._expected[i]


def observe_grid(g):
    """(size, spacing, origin, direction, ac, center) of a real Grid through its public accessors (float32 read as float64)."""
    n = np.array([int(v) for v in g.size()], dtype=np.float64)
    s = g.spacing().detach().double().numpy().copy()
    o = g.origin().detach().double().numpy().copy()
    R = g.direction().detach().double().numpy().copy()
    c = g.center().detach().double().numpy().copy()
    return n, s, o, R, bool(g.align_corners()), c


def same_attrs(a, b) -> bool:
    """Tolerant comparison (a grid that was legitimately re-derived may differ by float32 rounding)."""
    if a[0].shape != b[0].shape or not np.array_equal(a[0], b[0]):
        return False
    if a[4] != b[4]:
        return False
    # all source values are small integers; 1e-3 is 3 orders above float32 rounding and 3 below any mix-up
    return bool(np.all(np.abs(a[1] - b[1]) < 1e-3) and np.all(np.abs(a[2] - b[2]) < 1e-3) and np.all(np.abs(a[3] - b[3]) < 1e-3))


def exact_attrs(a, b) -> bool:
    """Exact comparison: same flag and bit-identical size, spacing, center and direction (not Grid.__eq__)."""
    if a[0].shape != b[0].shape or a[4] != b[4]:
        return False
    return all(np.array_equal(a[k], b[k]) for k in (0, 1, 3, 5))


# ---------------------------------------------------------------------------
# alphabet
class Ctx:
    def __init__(self, U: Universe, kind: str, plain: bool):
        self.U, self.kind, self.plain = U, kind, plain

    def other(self):
        return self.U.build(self.kind, "other", self.plain)

    def grid_x(self, x):
        """The extra grid X (belongs to no item); precondition of grid_(): it fits the spatial shape of x."""
        D = self.U.D
        if x.ndim < D + 1 or tuple(x.shape[-D:]) != tuple(self.U.shape):
            raise ValueError("grid_(X) not enabled: spatial shape of the value differs from the grid shape")
        return None if self.plain else self.U.real_grid(self.U.N)

    @staticmethod
    def zeros(x):
        return torch.zeros(tuple(x.shape), dtype=x.dtype)


def _mask(x):
    return torch.tensor([k != 0 for k in range(x.shape[0])])


def _perm_index(x):
    """Index tensor of x's shape that rotates the entries along dim 0 (entry k <- entry k-1)."""
    n = x.shape[0]
    perm = torch.tensor([(k - 1) % n for k in range(n)])
    return perm.reshape(-1, *([1] * (x.ndim - 1))).expand(x.shape)


def _set_grid(x, c, touch=None):
    """In-place setter x.grid_(X), optionally after an operation whose result is discarded (same object history)."""
    g = c.grid_x(x)
    if touch == "batch" and x.ndim != c.U.D + 1:
        raise ValueError("batch() exists for single images only")
    if c.plain:
        return x
    if touch == "batch" and hasattr(x, "batch"):
        x.batch()
    elif touch == "narrow":
        x.narrow(0, 0, x.shape[0])
    elif touch == "crop" and hasattr(x, "crop"):
        x.crop(0)
    return x.grid_(g)


def _peek(x, c, what):
    """Evaluate an operation on x, discard the result, continue with the SAME object."""
    if what == "batch":
        if x.ndim != c.U.D + 1:
            raise ValueError("batch() exists for single images only")
        if not c.plain and hasattr(x, "batch"):
            x.batch()
    elif what == "narrow":
        x.narrow(0, 0, x.shape[0])
    return x


def _discard(fn):
    """Operation evaluated for its side effects only: the program continues with the SAME object."""
    def run(x, c):
        fn(x, c)
        return x

    return run


def _tensor_view(x, c):
    return x if (c.plain or not hasattr(x, "tensor")) else x.tensor()


def _sizes0(x):
    return [1, x.shape[0] - 1]


def _interp_mode(x):
    return {3: "linear", 4: "bilinear", 5: "trilinear"}[x.ndim]


def _pool(name, x, *a):
    return getattr(F, f"{name}{x.ndim - 2}d")(x, *a)


def _save_load(x):
    buf = io.BytesIO()
    torch.save(x, buf)
    buf.seek(0)
    return torch.load(buf, weights_only=False)


def _ones(n, x):
    return (1,) * n


LIN = lambda a, b: ("lin", a, b)  # noqa: E731
UNK = "unk"

OPS: dict = {}
ORDER: list = []
MENU: list = []


def _A(name, group, fn, aff=None, menu=False):
    assert name not in OPS and not any(ch in name for ch in "[]*?/ ")
    OPS[name] = (group, fn, aff)
    ORDER.append(name)
    if menu:
        MENU.append(name)


def _build_alphabet():
    A = _A
    E = "elementwise"
    A("neg", E, lambda x, c: -x, LIN(-1, 0), menu=True)
    A("torch.neg", E, lambda x, c: torch.neg(x), LIN(-1, 0))
    A("mul(2)", E, lambda x, c: x * 2, LIN(2, 0))
    A("rmul(2)", E, lambda x, c: 2 * x, LIN(2, 0))
    A("torch.mul(2)", E, lambda x, c: torch.mul(x, 2), LIN(2, 0))
    A("add(1)", E, lambda x, c: x + 1, LIN(1, 1), menu=True)
    A("radd(1)", E, lambda x, c: 1 + x, LIN(1, 1))
    A("sub(1)", E, lambda x, c: x - 1, LIN(1, -1))
    A("torch.add(1)", E, lambda x, c: torch.add(x, 1), LIN(1, 1))
    A("add(zeros_plain)", E, lambda x, c: x + c.zeros(x), None, menu=True)
    A("radd(zeros_plain)", E, lambda x, c: c.zeros(x) + x, None)
    A("torch.add(zeros_plain,x)", E, lambda x, c: torch.add(c.zeros(x), x), None)
    A("add(self)", E, lambda x, c: x + x, LIN(2, 0))
    A("add(other)", E, lambda x, c: x + c.other(), UNK, menu=True)
    A("radd(other)", E, lambda x, c: c.other() + x, UNK)
    A("maximum(other)", E, lambda x, c: torch.maximum(x, c.other()), UNK)
    A("mul(ones_row)", E, lambda x, c: x * torch.ones(x.shape[-1], dtype=x.dtype), None)
    A("abs", E, lambda x, c: x.abs(), UNK)
    A("clamp(min=0)", E, lambda x, c: x.clamp(min=0), UNK)
    A("gt(0)", E, lambda x, c: x > 0, UNK)
    A("eq(self)", E, lambda x, c: x == x, UNK)
    A("where(gt0,x,x)", E, lambda x, c: torch.where(x > 0, x, x), None)
    A("add_(1)", E, lambda x, c: x.add_(1), LIN(1, 1))
    A("mul_(2)", E, lambda x, c: x.mul_(2), LIN(2, 0))
    # in-place elementwise operations (return the receiver, same type)
    A("neg_()", E, lambda x, c: x.neg_(), LIN(-1, 0), menu=True)
    A("sub_(1)", E, lambda x, c: x.sub_(1), LIN(1, -1))
    A("copy_(2x)", E, lambda x, c: x.copy_(x.detach().as_subclass(Tensor) * 2), LIN(2, 0))
    A("add_(zeros_plain)", E, lambda x, c: x.add_(c.zeros(x)), None)
    A("clamp_(min=-1e9)", E, lambda x, c: x.clamp_(min=-1e9), None)
    A("zeros_like", E, lambda x, c: torch.zeros_like(x), UNK)
    R = "reduce"
    for d in (0, 1, 2):
        for kd in (False, True):
            A(f"sum({d},keepdim={kd})", R, (lambda d, kd: lambda x, c: x.sum(d, keepdim=kd))(d, kd), UNK, menu=(d == 0 and kd))
    A("sum()", R, lambda x, c: x.sum(), UNK)
    A("sum(-1,keepdim=True)", R, lambda x, c: x.sum(-1, keepdim=True), UNK)
    A("amax(0,keepdim=True)", R, lambda x, c: x.amax(0, keepdim=True), UNK)
    A("amax(1,keepdim=True)", R, lambda x, c: x.amax(1, keepdim=True), UNK)
    A("max(dim=0)", R, lambda x, c: tuple(x.max(dim=0)), UNK)
    A("max(dim=0,keepdim=True)", R, lambda x, c: tuple(x.max(dim=0, keepdim=True)), UNK)
    A("argmax(0,keepdim=True)", R, lambda x, c: x.argmax(0, keepdim=True), UNK)
    I = "index"
    A("getitem(0)", I, lambda x, c: x[0])
    A("getitem(1)", I, lambda x, c: x[1], menu=True)
    A("getitem(-1)", I, lambda x, c: x[-1])
    A("getitem(1:)", I, lambda x, c: x[1:], menu=True)
    A("getitem(::2)", I, lambda x, c: x[::2])
    A("getitem(0:1)", I, lambda x, c: x[0:1])
    A("getitem(:)", I, lambda x, c: x[:])
    A("getitem(list(2,0))", I, lambda x, c: x[[2, 0]], menu=True)
    A("getitem(list(1))", I, lambda x, c: x[[1]])
    A("getitem(tensor(2,0))", I, lambda x, c: x[torch.tensor([2, 0])])
    A("getitem(ndarray(2,0))", I, lambda x, c: x[np.array([2, 0])])
    A("getitem(boolmask)", I, lambda x, c: x[_mask(x)], menu=True)
    A("getitem(boollist)", I, lambda x, c: x[[k != 0 for k in range(x.shape[0])]])
    A("getitem(ellipsis)", I, lambda x, c: x[...])
    A("getitem(ellipsis,0)", I, lambda x, c: x[..., 0])
    A("getitem(1:,ellipsis)", I, lambda x, c: x[1:, ...])
    A("getitem(:,0)", I, lambda x, c: x[:, 0])
    A("getitem(:,0:1)", I, lambda x, c: x[:, 0:1], menu=True)
    A("getitem(:,1:)", I, lambda x, c: x[:, 1:])
    A("getitem(:,:,1:3)", I, lambda x, c: x[:, :, 1:3])
    A("getitem(1:,:,:)", I, lambda x, c: x[1:, :, :])
    A("getitem(1,0)", I, lambda x, c: x[1, 0])
    A("getitem(None)", I, lambda x, c: x[None])
    A("getitem(tuple(1))", I, lambda x, c: x[(1,)])
    A("getitem(list(2,0),0:1)", I, lambda x, c: x[[2, 0], 0:1])
    A("getitem(0:2,1:)", I, lambda x, c: x[0:2, 1:])
    A("getitem(1:,ellipsis,:)", I, lambda x, c: x[1:, ..., :])
    A("getitem(tensor(1))", I, lambda x, c: x[torch.tensor(1)])
    S = "select"
    for d in (0, 1, 2):
        A(f"narrow({d},1,2)", S, (lambda d: lambda x, c: x.narrow(d, 1, 2))(d), menu=(d == 0))
    A("narrow(-1,1,2)", S, lambda x, c: x.narrow(-1, 1, 2))
    A("narrow(0,full)", S, lambda x, c: x.narrow(0, 0, x.shape[0]))
    A("torch.narrow(0,1,2)", S, lambda x, c: torch.narrow(x, 0, 1, 2), menu=True)
    A("torch.narrow(1,0,1)", S, lambda x, c: torch.narrow(x, 1, 0, 1))
    A("select(0,1)", S, lambda x, c: x.select(0, 1))
    A("select(1,0)", S, lambda x, c: x.select(1, 0))
    A("select(2,1)", S, lambda x, c: x.select(2, 1))
    A("index_select(0,(2,0))", S, lambda x, c: x.index_select(0, torch.tensor([2, 0])), menu=True)
    A("index_select(0,(1))", S, lambda x, c: x.index_select(0, torch.tensor([1])))
    # 0-d index tensors (torch accepts them: result has size 1 along the dim)
    A("index_select(0,tensor0d(1))", S, lambda x, c: x.index_select(0, torch.tensor(1)))
    A("index_select(-ndim,tensor0d(1))", S, lambda x, c: x.index_select(-x.ndim, torch.tensor(1)))
    A("index_select(1,tensor0d(0))", S, lambda x, c: x.index_select(1, torch.tensor(0)))
    A("torch.index_select(0,tensor0d(1))", S, lambda x, c: torch.index_select(x, 0, torch.tensor(1)))
    A("index_select(dim=0,index=tensor0d(0))", S, lambda x, c: x.index_select(dim=0, index=torch.tensor(0)))
    A("index_select(1,(0))", S, lambda x, c: x.index_select(1, torch.tensor([0])))
    A("index_select(2,(1,0))", S, lambda x, c: x.index_select(2, torch.tensor([1, 0])))
    A("torch.index_select(0,(2,0))", S, lambda x, c: torch.index_select(x, 0, torch.tensor([2, 0])))
    A("masked_select_rows", S, lambda x, c: x[_mask(x), ...])
    A("narrow(-ndim,1,2)", S, lambda x, c: x.narrow(-x.ndim, 1, 2))
    A("narrow(0,tensor(1),2)", S, lambda x, c: x.narrow(0, torch.tensor(1), 2))
    A("torch.narrow(dim=0,start=1,length=2)", S, lambda x, c: torch.narrow(x, dim=0, start=1, length=2))
    A("index_select(dim=0,index=(2,0))", S, lambda x, c: x.index_select(dim=0, index=torch.tensor([2, 0])))
    A("index_select(-ndim,(2,0))", S, lambda x, c: x.index_select(-x.ndim, torch.tensor([2, 0])))
    A("index_select(0,index=(2,0))", S, lambda x, c: x.index_select(0, index=torch.tensor([2, 0])))
    A("index_select(dim=-ndim,index=(2,0))", S, lambda x, c: x.index_select(dim=-x.ndim, index=torch.tensor([2, 0])))
    A("torch.index_select(dim=0,index=(2,0))", S, lambda x, c: torch.index_select(x, dim=0, index=torch.tensor([2, 0])))
    A("torch.index_select(-ndim,(2,0))", S, lambda x, c: torch.index_select(x, -x.ndim, torch.tensor([2, 0])))
    A("torch.index_select(input=x,dim=0,index=(2,0))", S, lambda x, c: torch.index_select(input=x, dim=0, index=torch.tensor([2, 0])))
    A("narrow(dim=0,start=1,length=2)", S, lambda x, c: x.narrow(dim=0, start=1, length=2))
    A("narrow(dim=-ndim,start=1,length=2)", S, lambda x, c: x.narrow(dim=-x.ndim, start=1, length=2))
    A("narrow(0,1,length=2)", S, lambda x, c: x.narrow(0, 1, length=2))
    A("narrow(0,-2,2)", S, lambda x, c: x.narrow(0, -2, 2))
    A("torch.narrow(-ndim,1,2)", S, lambda x, c: torch.narrow(x, -x.ndim, 1, 2))
    A("torch.narrow(0,start=1,length=2)", S, lambda x, c: torch.narrow(x, 0, start=1, length=2))
    A("torch.narrow(0,-2,2)", S, lambda x, c: torch.narrow(x, 0, -2, 2))
    A("torch.narrow(-ndim,-2,2)", S, lambda x, c: torch.narrow(x, -x.ndim, -2, 2))
    A("torch.narrow(0,-3,2)", S, lambda x, c: torch.narrow(x, 0, -3, 2))
    A("torch.narrow(0,-1,1)", S, lambda x, c: torch.narrow(x, 0, -1, 1))
    A("narrow(-ndim,-2,2)", S, lambda x, c: x.narrow(-x.ndim, -2, 2))
    A("index_select(0,(-1,0))", S, lambda x, c: x.index_select(0, torch.tensor([x.shape[0] - 1, 0])))
    A("select(0,-1)", S, lambda x, c: x.select(0, -1))
    A("getitem(-2:)", S, lambda x, c: x[-2:])
    A("getitem(list(-1,0))", S, lambda x, c: x[[-1, 0]])
    A("getitem(tensor(-1,-2))", S, lambda x, c: x[torch.tensor([-1, -2])])
    A("getitem(-3:-1)", S, lambda x, c: x[-3:-1])
    A("select(-ndim,1)", S, lambda x, c: x.select(-x.ndim, 1))
    C = "cat"
    A("cat(x,x)", C, lambda x, c: torch.cat([x, x]))
    A("cat(x,x;0)", C, lambda x, c: torch.cat([x, x], 0))
    A("cat(x,x;dim=0)", C, lambda x, c: torch.cat([x, x], dim=0), menu=True)
    A("cat(tuple(x,x);dim=0)", C, lambda x, c: torch.cat((x, x), dim=0))
    A("cat(x,other;dim=0)", C, lambda x, c: torch.cat([x, c.other()], dim=0), menu=True)
    A("cat(other,x;dim=0)", C, lambda x, c: torch.cat([c.other(), x], dim=0))
    A("cat(x,other,x;dim=0)", C, lambda x, c: torch.cat([x, c.other(), x], dim=0))
    A("cat(x,x;dim=1)", C, lambda x, c: torch.cat([x, x], dim=1))
    A("cat(x,x;1)", C, lambda x, c: torch.cat([x, x], 1))
    A("cat(x,x;dim=2)", C, lambda x, c: torch.cat([x, x], dim=2))
    A("cat(x,x;dim=-1)", C, lambda x, c: torch.cat([x, x], dim=-1))
    A("cat(x,zeros_plain;dim=0)", C, lambda x, c: torch.cat([x, c.zeros(x)], dim=0), menu=True)
    A("cat(zeros_plain,x;dim=0)", C, lambda x, c: torch.cat([c.zeros(x), x], dim=0))
    A("cat(x,other)", C, lambda x, c: torch.cat([x, c.other()]))
    A("cat(x,other;0)", C, lambda x, c: torch.cat([x, c.other()], 0))
    A("cat(tuple(x,other);dim=0)", C, lambda x, c: torch.cat((x, c.other()), dim=0))
    A("cat(tensors=(x,other),dim=0)", C, lambda x, c: torch.cat(tensors=[x, c.other()], dim=0))
    A("cat(other,x;-ndim)", C, lambda x, c: torch.cat([c.other(), x], -x.ndim))
    A("cat(x,x;-ndim+1)", C, lambda x, c: torch.cat([x, x], -x.ndim + 1))
    A("stack(x,other;0)", C, lambda x, c: torch.stack([x, c.other()], 0))
    A("stack(x,other;dim=-1)", C, lambda x, c: torch.stack([x, c.other()], dim=-1))
    A("vstack(x,other)", C, lambda x, c: torch.vstack([x, c.other()]))
    A("concat(x,other;dim=0)", C, lambda x, c: torch.concat([x, c.other()], dim=0))
    A("cat(x,other;-ndim)", C, lambda x, c: torch.cat([x, c.other()], -x.ndim))
    A("cat(x,other;dim=-ndim)", C, lambda x, c: torch.cat([x, c.other()], dim=-x.ndim))
    for d in (0, 1, 2):
        A(f"stack(x,x;dim={d})", C, (lambda d: lambda x, c: torch.stack([x, x], dim=d))(d))
    A("stack(x,other;dim=0)", C, lambda x, c: torch.stack([x, c.other()], dim=0))
    P = "split"
    A("split(1)", P, lambda x, c: x.split(1), menu=True)
    A("split(2)", P, lambda x, c: x.split(2))
    A("split(list(1,n-1))", P, lambda x, c: x.split(_sizes0(x)), menu=True)
    A("split(1,dim=0)", P, lambda x, c: x.split(1, dim=0))
    A("split(1,dim=1)", P, lambda x, c: x.split(1, dim=1))
    A("split(1;1)", P, lambda x, c: x.split(1, 1))
    A("split(2,dim=2)", P, lambda x, c: x.split(2, dim=2))
    A("torch.split(1)", P, lambda x, c: torch.split(x, 1))
    A("torch.split(list(1,n-1),dim=0)", P, lambda x, c: torch.split(x, _sizes0(x), dim=0))
    A("chunk(n)", P, lambda x, c: x.chunk(x.shape[0]))
    A("chunk(2)", P, lambda x, c: x.chunk(2), menu=True)
    A("chunk(2,dim=1)", P, lambda x, c: x.chunk(2, dim=1))
    A("chunk(2,dim=2)", P, lambda x, c: x.chunk(2, dim=2))
    A("unbind(0)", P, lambda x, c: x.unbind(0), menu=True)
    A("unbind(1)", P, lambda x, c: x.unbind(1))
    A("unbind(2)", P, lambda x, c: x.unbind(2))
    A("tensor_split(n)", P, lambda x, c: x.tensor_split(x.shape[0]), menu=True)
    A("tensor_split(2)", P, lambda x, c: x.tensor_split(2))
    A("tensor_split(list(1))", P, lambda x, c: x.tensor_split([1]))
    A("tensor_split(list(1,2))", P, lambda x, c: x.tensor_split([1, 2]))
    A("tensor_split(tuple(1,2))", P, lambda x, c: x.tensor_split((1, 2)))
    A("tensor_split(2,dim=1)", P, lambda x, c: x.tensor_split(2, dim=1))
    A("tensor_split(2,dim=2)", P, lambda x, c: x.tensor_split(2, dim=2))
    A("torch.tensor_split(list(1),dim=0)", P, lambda x, c: torch.tensor_split(x, [1], dim=0))
    A("split_with_sizes(list(1,n-1))", P, lambda x, c: x.split_with_sizes(_sizes0(x)))
    A("split_with_sizes(list(1,n-1),dim=0)", P, lambda x, c: x.split_with_sizes(_sizes0(x), dim=0))
    A("split_with_sizes(list(n-1,1))", P, lambda x, c: x.split_with_sizes(_sizes0(x)[::-1]))
    A("split_with_sizes(list(1,c-1),dim=1)", P, lambda x, c: x.split_with_sizes([1, x.shape[1] - 1], dim=1))
    A("vsplit(list(1))", P, lambda x, c: x.vsplit([1]))
    A("split(1,-ndim)", P, lambda x, c: x.split(1, -x.ndim))
    A("split(1,dim=-ndim)", P, lambda x, c: x.split(1, dim=-x.ndim))
    A("tensor_split(tensor(1,2))", P, lambda x, c: x.tensor_split(torch.tensor([1, 2])))
    A("split(list(1,n-1);0)", P, lambda x, c: x.split(_sizes0(x), 0))
    A("split(list(1,n-1),dim=-ndim)", P, lambda x, c: x.split(_sizes0(x), dim=-x.ndim))
    A("split(split_size=1,dim=0)", P, lambda x, c: x.split(split_size=1, dim=0))
    A("torch.split(1;0)", P, lambda x, c: torch.split(x, 1, 0))
    A("torch.split(1;-ndim)", P, lambda x, c: torch.split(x, 1, -x.ndim))
    A("torch.split(list(1,n-1),dim=-ndim)", P, lambda x, c: torch.split(x, _sizes0(x), dim=-x.ndim))
    A("split_with_sizes(list(1,n-1);0)", P, lambda x, c: x.split_with_sizes(_sizes0(x), 0))
    A("split_with_sizes(list(1,n-1),dim=-ndim)", P, lambda x, c: x.split_with_sizes(_sizes0(x), dim=-x.ndim))
    A("tensor_split(list(1);0)", P, lambda x, c: x.tensor_split([1], 0))
    A("tensor_split(list(1),dim=-ndim)", P, lambda x, c: x.tensor_split([1], dim=-x.ndim))
    A("tensor_split(2;-ndim)", P, lambda x, c: x.tensor_split(2, -x.ndim))
    A("tensor_split(n,dim=0)", P, lambda x, c: x.tensor_split(x.shape[0], dim=0))
    A("tensor_split(indices=list(1),dim=0)", P, lambda x, c: x.tensor_split(indices=[1], dim=0))
    A("tensor_split(sections=2,dim=0)", P, lambda x, c: x.tensor_split(sections=2, dim=0))
    A("torch.tensor_split(2;-ndim)", P, lambda x, c: torch.tensor_split(x, 2, -x.ndim))
    A("torch.tensor_split(list(1,2);0)", P, lambda x, c: torch.tensor_split(x, [1, 2], 0))
    A("chunk(2,-ndim)", P, lambda x, c: x.chunk(2, -x.ndim))
    A("unbind(-ndim)", P, lambda x, c: x.unbind(-x.ndim))
    A("hsplit(2)", P, lambda x, c: x.hsplit(2))
    A("unsafe_split(1)", P, lambda x, c: x.unsafe_split(1))
    O = "reorder"
    A("flip(0)", O, lambda x, c: x.flip(0), menu=True)
    A("flip(1)", O, lambda x, c: x.flip(1))
    A("flip(2)", O, lambda x, c: x.flip(2))
    A("flip(-1)", O, lambda x, c: x.flip(-1))
    A("torch.flip((0))", O, lambda x, c: torch.flip(x, [0]))
    A("flip(0,2)", O, lambda x, c: x.flip(0, 2))
    A("roll(1,0)", O, lambda x, c: x.roll(1, 0), menu=True)
    A("roll(-1,0)", O, lambda x, c: x.roll(-1, 0))
    A("roll(1,1)", O, lambda x, c: x.roll(1, 1))
    A("roll(1,2)", O, lambda x, c: x.roll(1, 2))
    A("roll(1)", O, lambda x, c: x.roll(1))
    A("torch.roll(1,dims=0)", O, lambda x, c: torch.roll(x, 1, dims=0))
    A("flipud()", O, lambda x, c: x.flipud())
    # every call form of flip / roll with the batch dim in each argument position
    A("flip(2,0)", O, lambda x, c: x.flip(2, 0))
    A("flip(1,-ndim)", O, lambda x, c: x.flip(1, -x.ndim))
    A("flip(-1,0)", O, lambda x, c: x.flip(-1, 0))
    A("flip(tuple(0,2))", O, lambda x, c: x.flip((0, 2)))
    A("flip(tuple(2,0))", O, lambda x, c: x.flip((2, 0)))
    A("flip(list(2,0))", O, lambda x, c: x.flip([2, 0]))
    A("flip(list(0))", O, lambda x, c: x.flip([0]))
    A("flip(dims=(2,0))", O, lambda x, c: x.flip(dims=(2, 0)))
    A("flip(dims=list(-ndim))", O, lambda x, c: x.flip(dims=[-x.ndim]))
    A("torch.flip((2,0))", O, lambda x, c: torch.flip(x, (2, 0)))
    A("torch.flip(dims=(0,))", O, lambda x, c: torch.flip(x, dims=(0,)))
    A("torch.flip(dims=list(2,-ndim))", O, lambda x, c: torch.flip(x, dims=[2, -x.ndim]))
    A("torch.flipud", O, lambda x, c: torch.flipud(x))
    A("roll((1,1),(2,0))", O, lambda x, c: x.roll((1, 1), (2, 0)))
    A("roll((1,),(0,))", O, lambda x, c: x.roll((1,), (0,)))
    A("roll(list(1,1),list(2,0))", O, lambda x, c: x.roll([1, 1], [2, 0]))
    A("roll(shifts=(1,1),dims=(2,0))", O, lambda x, c: x.roll(shifts=(1, 1), dims=(2, 0)))
    A("roll(1,dims=-ndim)", O, lambda x, c: x.roll(1, dims=-x.ndim))
    A("roll((1,2),(-ndim,0))", O, lambda x, c: x.roll((1, 1), (-x.ndim, 0)))
    A("torch.roll((1,1),(2,0))", O, lambda x, c: torch.roll(x, (1, 1), (2, 0)))
    A("torch.roll(shifts=1,dims=0)", O, lambda x, c: torch.roll(x, shifts=1, dims=0))
    A("torch.roll(shifts=(1,1),dims=(2,-ndim))", O, lambda x, c: torch.roll(x, shifts=(1, 1), dims=(2, -x.ndim)))
    A("flip(dims=(0,))", O, lambda x, c: x.flip(dims=(0,)))
    A("flip(-ndim)", O, lambda x, c: x.flip(-x.ndim))
    A("roll(shifts=1,dims=0)", O, lambda x, c: x.roll(shifts=1, dims=0))
    A("roll((1,1),(0,2))", O, lambda x, c: x.roll((1, 1), (0, 2)))
    A("roll(1,-ndim)", O, lambda x, c: x.roll(1, -x.ndim))
    A("rot90(2,(0,2))", O, lambda x, c: x.rot90(2, (0, 2)))
    A("gather(0,perm)", O, lambda x, c: x.gather(0, _perm_index(x)), menu=True)
    A("take_along_dim(perm,0)", O, lambda x, c: x.take_along_dim(_perm_index(x), 0))
    A("getitem(tensor(perm))", O, lambda x, c: x[torch.tensor([(k - 1) % x.shape[0] for k in range(x.shape[0])])])
    T = "permute"
    A("transpose(0,1)", T, lambda x, c: x.transpose(0, 1), menu=True)
    A("transpose(-1,-2)", T, lambda x, c: x.transpose(-1, -2))
    A("permute(reversed)", T, lambda x, c: x.permute(*reversed(range(x.ndim))))
    A("permute(1,0,rest)", T, lambda x, c: x.permute(1, 0, *range(2, x.ndim)))
    A("movedim(0,1)", T, lambda x, c: x.movedim(0, 1))
    A("swapaxes(0,-1)", T, lambda x, c: x.swapaxes(0, -1))
    X = "expand"
    A("expand(same)", X, lambda x, c: x.expand(*x.shape))
    A("expand(N,rest)", X, lambda x, c: x.expand(c.U.N, *x.shape[1:]), menu=True)
    A("repeat(2,1s)", X, lambda x, c: x.repeat(2, *_ones(x.ndim - 1, x)), menu=True)
    A("repeat(1,2,1s)", X, lambda x, c: x.repeat(1, 2, *_ones(x.ndim - 2, x)))
    A("repeat(1s,2)", X, lambda x, c: x.repeat(*_ones(x.ndim - 1, x), 2))
    A("repeat(1s)", X, lambda x, c: x.repeat(*_ones(x.ndim, x)))
    A("repeat_interleave(2,dim=0)", X, lambda x, c: x.repeat_interleave(2, dim=0))
    A("tile(2,1s)", X, lambda x, c: x.tile((2, *_ones(x.ndim - 1, x))))
    H = "reshape"
    A("reshape(same)", H, lambda x, c: x.reshape(x.shape))
    A("view(same)", H, lambda x, c: x.view(x.shape))
    A("view_as(self)", H, lambda x, c: x.view_as(x))
    A("flatten(0,1)", H, lambda x, c: x.flatten(0, 1))
    A("flatten(2)", H, lambda x, c: x.flatten(2))
    A("flatten()", H, lambda x, c: x.flatten())
    A("reshape(-1)", H, lambda x, c: x.reshape(-1))
    A("unsqueeze(0)", H, lambda x, c: x.unsqueeze(0), menu=True)
    A("unsqueeze(1)", H, lambda x, c: x.unsqueeze(1))
    A("unsqueeze(-1)", H, lambda x, c: x.unsqueeze(-1))
    A("squeeze()", H, lambda x, c: x.squeeze(), menu=True)
    A("squeeze(0)", H, lambda x, c: x.squeeze(0))
    A("reshape(merge01)", H, lambda x, c: x.reshape(-1, *x.shape[2:]))
    A("reshape(swap_last2)", H, lambda x, c: x.reshape(*x.shape[:-2], x.shape[-1], x.shape[-2]))
    A("reshape(regroup01)", H, lambda x, c: x.reshape(x.shape[1], x.shape[0], *x.shape[2:]))
    M = "nn"
    A("interpolate(scale=2)", M, lambda x, c: F.interpolate(x, scale_factor=2), None)
    A("interpolate(size=same)", M, lambda x, c: F.interpolate(x, size=tuple(x.shape[2:])), None, menu=True)
    A("interpolate(size=same,linear)", M, lambda x, c: F.interpolate(x, size=tuple(x.shape[2:]), mode=_interp_mode(x), align_corners=False), UNK)
    A("interpolate(scale=0.5,linear)", M, lambda x, c: F.interpolate(x, scale_factor=0.5, mode=_interp_mode(x), align_corners=False), UNK)
    A("avg_pool(2)", M, lambda x, c: _pool("avg_pool", x, 2), UNK)
    A("max_pool(2)", M, lambda x, c: _pool("max_pool", x, 2), UNK)
    A("max_pool(1)", M, lambda x, c: _pool("max_pool", x, 1), None)
    A("adaptive_avg_pool(same)", M, lambda x, c: _pool("adaptive_avg_pool", x, tuple(x.shape[2:])), UNK)
    A("pad((1,1))", M, lambda x, c: F.pad(x, (1, 1)), None)
    A("pad((0,0))", M, lambda x, c: F.pad(x, (0, 0)), None, menu=True)
    A("pad((1,0,0,1),replicate)", M, lambda x, c: F.pad(x, (1, 0, 0, 1), mode="replicate"), None)
    K = "cast"
    A("float()", K, lambda x, c: x.float())
    A("double()", K, lambda x, c: x.double(), menu=True)
    A("to(float64)", K, lambda x, c: x.to(torch.float64))
    A("to(dtype=float64)", K, lambda x, c: x.to(dtype=torch.float64))
    A("to(int32)", K, lambda x, c: x.to(torch.int32), menu=True)
    A("long()", K, lambda x, c: x.long())
    A("to(same_dtype)", K, lambda x, c: x.to(x.dtype))
    A("to(cpu)", K, lambda x, c: x.to("cpu"))
    A("to(cpu,float64)", K, lambda x, c: x.to("cpu", torch.float64))
    A("type(float64)", K, lambda x, c: x.type(torch.float64))
    A("cpu()", K, lambda x, c: x.cpu())
    A("bool()", K, lambda x, c: x.bool(), UNK)
    A("to(other)", K, lambda x, c: x.to(c.zeros(x).double()))
    L = "clone"
    A("clone()", L, lambda x, c: x.clone(), menu=True)
    A("torch.clone", L, lambda x, c: torch.clone(x))
    A("detach()", L, lambda x, c: x.detach(), menu=True)
    A("contiguous()", L, lambda x, c: x.contiguous())
    A("data", L, lambda x, c: x.data)
    A("requires_grad_(False)", L, lambda x, c: x.requires_grad_(False))
    A("clone(contiguous_format)", L, lambda x, c: x.clone(memory_format=torch.contiguous_format))
    G = "setter"
    A("grid_(X)", G, lambda x, c: _set_grid(x, c), menu=True)
    A("batch();grid_(X)", G, lambda x, c: _set_grid(x, c, "batch"))
    A("narrow(0,full);grid_(X)", G, lambda x, c: _set_grid(x, c, "narrow"))
    A("crop(0);grid_(X)", G, lambda x, c: _set_grid(x, c, "crop"))
    A("peek:batch()", G, lambda x, c: _peek(x, c, "batch"), menu=True)
    A("peek:narrow(0,full)", G, lambda x, c: _peek(x, c, "narrow"))
    A("peek:getitem(0)", G, _discard(lambda x, c: x[0]))
    A("peek:getitem(1:)", G, _discard(lambda x, c: x[1:]))
    A("peek:getitem(list(2,0))", G, _discard(lambda x, c: x[[2, 0]]))
    A("peek:iter", G, _discard(lambda x, c: list(x)))
    A("peek:tensor()", G, _discard(_tensor_view))
    A("peek:clone()", G, _discard(lambda x, c: x.clone()))
    T2 = "iter"
    A("iter", T2, lambda x, c: list(x), menu=True)
    A("reversed", T2, lambda x, c: list(reversed(x)))
    A("enumerate_getitem", T2, lambda x, c: [x[k] for k in range(len(x))])
    Y = "copy"
    A("copy.copy", Y, lambda x, c: copy.copy(x), menu=True)
    A("copy.deepcopy", Y, lambda x, c: copy.deepcopy(x), menu=True)
    A("pickle", Y, lambda x, c: pickle.loads(pickle.dumps(x)), menu=True)
    A("pickle(protocol=2)", Y, lambda x, c: pickle.loads(pickle.dumps(x, protocol=2)))
    A("torch.save_load", Y, lambda x, c: _save_load(x))
    A("deepcopy(list)", Y, lambda x, c: copy.deepcopy([x, x]))


_build_alphabet()

# second operation of the quick tier: the length-3 menu plus one or two more forms per mechanism
MENU2 = MENU + [
    "mul(2)", "add(self)", "add_(1)", "where(gt0,x,x)", "zeros_like", "sum(1,keepdim=True)", "getitem(0)", "getitem(::2)",
    "getitem(tensor(2,0))", "getitem(ellipsis)", "getitem(None)", "getitem(list(2,0),0:1)", "narrow(1,1,2)", "narrow(2,1,2)",
    "narrow(-1,1,2)", "select(0,1)", "index_select(1,(0))", "cat(x,x;dim=1)", "cat(x,x;1)", "stack(x,x;dim=0)", "split(1,dim=1)",
    "split_with_sizes(list(1,n-1))", "unbind(1)", "tensor_split(list(1,2))", "tensor_split(tensor(1,2))", "flip(2)", "flip(0,2)",
    "roll(1,2)", "rot90(2,(0,2))", "take_along_dim(perm,0)", "reversed", "permute(1,0,rest)", "repeat(1,2,1s)",
    "repeat_interleave(2,dim=0)", "flatten(0,1)", "reshape(same)", "interpolate(scale=2)", "max_pool(1)", "avg_pool(2)",
    "float()", "to(same_dtype)", "long()", "contiguous()", "data", "torch.save_load",
    "flip(2,0)", "roll((1,1),(2,0))", "narrow(dim=-ndim,start=1,length=2)", "index_select(dim=-ndim,index=(2,0))",
    "tensor_split(list(1),dim=-ndim)", "cat(other,x;-ndim)", "batch();grid_(X)", "narrow(0,full)", "torch.narrow(0,-2,2)",
    "narrow(0,-2,2)", "copy_(2x)", "sub_(1)", "peek:getitem(0)", "peek:iter", "index_select(0,tensor0d(1))",
]
assert all(n in OPS for n in MENU2) and len(set(MENU2)) == len(MENU2)
# second operation for the near-equal-grid batches in the quick tier: everything that copies, clones or regroups grids
# layout sub-check: initial values whose wrapped tensor is a non-contiguous view; one or two forms per mechanism
KINDS_LAYOUT = tuple(f"{k}@{f}" for k in KINDS for f in ("transposed", "sliced")) + ("ImageBatch@expanded", "FlowFields@expanded")
LAYOUT_MENU = [
    "neg", "mul(2)", "add(zeros_plain)", "add(other)", "add_(1)", "mul_(2)", "neg_()", "sum(0,keepdim=True)",
    "getitem(0)", "getitem(1)", "getitem(1:)", "getitem(::2)", "getitem(list(2,0))", "getitem(boolmask)", "getitem(ellipsis)",
    "getitem(:,0:1)", "narrow(0,1,2)", "narrow(2,1,2)", "torch.narrow(0,1,2)", "select(0,1)", "index_select(0,(2,0))",
    "cat(x,x;dim=0)", "cat(x,other;dim=0)", "cat(x,x;dim=1)", "stack(x,x;dim=0)", "split(1)", "split(list(1,n-1))", "chunk(2)",
    "unbind(0)", "tensor_split(2)", "flip(0)", "flip(2)", "roll(1,0)", "gather(0,perm)", "transpose(0,1)", "transpose(-1,-2)",
    "expand(same)", "repeat(2,1s)", "reshape(same)", "view(same)", "flatten(0,1)", "unsqueeze(0)", "squeeze()",
    "interpolate(size=same)", "pad((0,0))", "double()", "to(int32)", "to(same_dtype)", "clone()", "torch.clone",
    "clone(contiguous_format)", "detach()", "contiguous()", "data", "iter", "reversed", "enumerate_getitem", "grid_(X)",
    "batch();grid_(X)", "copy.copy", "copy.deepcopy", "pickle", "pickle(protocol=2)", "torch.save_load", "deepcopy(list)",
]
LAYOUT_SECOND = ["clone()", "contiguous()", "copy.deepcopy", "pickle", "torch.save_load", "getitem(1)", "getitem(1:)", "iter",
                 "cat(x,x;dim=0)", "split(1)", "flip(0)", "mul_(2)"]
assert all(n in OPS for n in LAYOUT_MENU + LAYOUT_SECOND)
MENU_NEAR = [
    "clone()", "torch.clone", "clone(contiguous_format)", "copy.copy", "copy.deepcopy", "pickle", "pickle(protocol=2)",
    "torch.save_load", "deepcopy(list)", "detach()", "iter", "getitem(1:)", "getitem(list(2,0))", "cat(x,x;dim=0)",
    "cat(x,other;dim=0)", "split(1)", "flip(0)", "roll(1,0)", "double()", "add(1)",
]
assert all(n in OPS for n in MENU_NEAR)


def dims_for(tier):
    return (2,) if tier == "quick" else (2, 3)


def bounds(tier):
    return {
        "dimensions": list(dims_for(tier)),
        "initial_values_per_dimension": len(KINDS) + len(KINDS_NEAR),
        "near_equal_grid_batches": list(KINDS_NEAR),
        "second_operation_menu_near": len(MENU_NEAR) if tier == "quick" else len(ORDER),
        "items_per_batch": {"D2": 5, "D3": 6},
        "alphabet": len(ORDER),
        "menu_for_length_3": len(MENU),
        "second_operation_menu": len(MENU2) if tier == "quick" else len(ORDER),
        "program_length_full_alphabet": 2,
        "program_length_menu": 2 if tier == "quick" else 3,
        "program_length_menu_applies_to": "D=2",
        "layout_values": list(KINDS_LAYOUT),
        "layout_first_ops": len(LAYOUT_MENU),
        "layout_second_ops": len(LAYOUT_SECOND) if tier == "quick" else len(MENU2),
        "family_programs": {"peek": len(FAM_PEEK), "copy": len(FAM_COPY), "inplace": len(FAM_INPLACE), "observe": len(FAM_OBS), "orders": list(FAM_ORDERS)},
        "alias_histories": {"cases": len(alias_cases(tier)), "preparations": list(ALIAS_PREP), "copy_forms": list(ALIAS_COPY), "edits": ALIAS_EDIT, "edited_entries": "0, 1, last", "sides": ["original", "copy"]},
        "tuple_results_continued_from": "elements 0, 1 and last",
    }


# ---------------------------------------------------------------------------
# reference state: the affine map applied so far
def aff_step(aff, opaff):
    if aff is None:
        return None  # unknown
    if opaff is None:
        return aff
    if opaff == UNK:
        return None
    _, a, b = opaff
    return (a * aff[0], a * aff[1] + b)


def typed(v):
    from deepali.data import Image, ImageBatch

    return isinstance(v, (Image, ImageBatch))


def is_batch(v):
    from deepali.data import ImageBatch

    return isinstance(v, ImageBatch)


def is_flow(v):
    from deepali.data import FlowField, FlowFields

    return isinstance(v, (FlowField, FlowFields))


def decode_entry(U: Universe, arr: np.ndarray, affs):
    """arr: (C', *S') float64.  -> ("item", i, intact) | ("undef", reason)

    intact = every non-constant channel is a bit-exact copy of a source channel of item i;
    not intact = every non-constant channel has exactly the values of a source channel of item i, rearranged."""
    if arr.ndim != U.D + 1 or tuple(arr.shape[1:]) != tuple(U.shape):
        return ("undef", "spatial-shape-changed")
    found = set()
    intact = True
    for ch in arr:
        if ch.size and ch.min() == ch.max():
            continue  # constant channel (e.g. zeros operand): carries no provenance
        hit = None
        for a, b in affs:
            v = np.ascontiguousarray((ch - b) / a)
            hit = U.table.get(v.tobytes())
            if hit is None:
                hit = U.bag.get(np.sort(v.ravel()).tobytes())
                if hit is not None:
                    intact = False
            if hit is not None:
                break
        if hit is None:
            return ("undef", "channel-not-a-source-channel")
        found.add(hit[0])
    if not found:
        return ("undef", "no-provenance-channel")
    if len(found) > 1:
        return ("undef", "mixture-of-items")
    return ("item", next(iter(found)), intact)


def entry_verdicts(U: Universe, R, affs, stale=()):
    """Decode every entry.  `affs` = the affine maps that are reachable for SOME provenance of an entry: the composition of
    all elementwise steps (entries that descend from the initial value) and, for every time the untouched `other` value was
    combined, the composition of the steps applied since then.  `stale` = maps that an IN-PLACE step of the program has
    overwritten in the value itself: an entry that decodes only under such a map holds values the value no longer contains:
    ("stale", item)."""
    data = R.as_subclass(Tensor).detach()
    arr = data.double().numpy()
    entries = arr if is_batch(R) else arr[None]
    affs = [a for a in affs if a is not None]
    out = []
    for e in entries:
        v = decode_entry(U, e, affs)
        if v == ("undef", "channel-not-a-source-channel"):
            old = [a for a in stale if a is not None and a not in affs]
            if old:
                w = decode_entry(U, e, old)
                if w[0] == "item":
                    v = ("stale", w[1])
        out.append(v)
    return out


def judge_value(U: Universe, kind: str, R, aff, mixed=False, regrid=False, lineages=(), stale=()):
    """Judge ONE typed result from its own data.  -> (problems [(name, detail)], obs tuple, undef reasons)"""
    from deepali.core.grid import Grid

    problems, undefs = [], []
    data = R.as_subclass(Tensor).detach()
    batch = is_batch(R)
    # (a) structure ------------------------------------------------------
    st, grids = guarded(lambda: R.grids() if batch else R.grid())
    if st == "raises":
        return [("grid-accessor-raises=" + type(grids).__name__, exc_text(grids))], ("noaccess",), undefs
    if batch:
        if not isinstance(grids, (tuple, list)) or not all(isinstance(g, Grid) for g in grids):
            return [("grids-not-a-sequence-of-Grid", f"grids() is {type(grids).__name__}")], ("badgrids",), undefs
        grids = list(grids)
        nent = data.shape[0] if data.ndim else 0
        spatial = tuple(data.shape[2:])
        if len(grids) != nent:
            problems.append(("grid-count", f"{len(grids)} grids for {nent} batch entries, data shape {tuple(data.shape)}"))
    else:
        if not isinstance(grids, Grid):
            return [("grid-not-a-Grid", f"grid() is {type(grids).__name__}")], ("badgrid",), undefs
        grids = [grids]
        nent = 1
        spatial = tuple(data.shape[1:])
    gattrs = []
    for k, g in enumerate(grids):
        st, a = guarded(observe_grid, g)
        if st == "raises":
            problems.append(("grid-unreadable", exc_text(a)))
            gattrs.append(None)
            continue
        gattrs.append(a)
        gshape = tuple(int(v) for v in a[0][::-1])
        if gshape != spatial:
            problems.append(("grid-shape", f"entry {k}: grid shape {gshape} but data spatial shape {spatial}"))
    gids = []  # index of the source grid an entry carries: exact match first, else first tolerant match, else -1
    exact_ids, approx_ids = [], []
    for a in gattrs:
        ex = [i for i in range(U.N + 1) if a is not None and exact_attrs(a, U.grid_attrs(i))]
        ap = [i for i in range(U.N + 1) if a is not None and same_attrs(a, U.grid_attrs(i))]
        exact_ids.append(ex)
        approx_ids.append(ap)
        gids.append(ex[0] if ex else (ap[0] if ap else -1))

    def carries(k, i):
        """Entry k carries the grid of item i: bit-exact, or re-derived within rounding and not bit-exactly the grid of
        ANOTHER item (items may have grids that differ only in the flag or by 1e-5 in the origin)."""
        if i in exact_ids[k]:
            return True
        return i in approx_ids[k] and not exact_ids[k]
    axes = None
    if is_flow(R):
        st, ax = guarded(R.axes)
        axes = ax.value if st == "ok" and hasattr(ax, "value") else f"?{type(ax).__name__}"
    # (b) provenance -----------------------------------------------------
    items = []
    if problems:
        items = ["-"]
    elif aff is None:
        undefs.append("values-changed-by-arithmetic")
        items = ["?"]
    elif mixed:
        undefs.append("operand-mixes-items-of-different-grids")
        items = ["m"]
    else:
        any_item = False
        for k, verdict in enumerate(entry_verdicts(U, R, [aff] + list(lineages), stale)):
            if verdict[0] == "stale":
                problems.append(("stale-data", f"entry {k} holds the values item {verdict[1]} had BEFORE an in-place operation of the program (the value itself no longer contains them)"))
                items.append("s")
                continue
            if verdict[0] == "undef":
                undefs.append(verdict[1])
                items.append("u")
                continue
            _, i, intact = verdict
            items.append(i if intact else f"{i}~")
            any_item = True
            carried = f"the grid of source item {gids[k]}" if 0 <= gids[k] < U.N else ("the grid X" if gids[k] == U.N else "a grid of no source item")
            if regrid:
                # the in-place setter grid_(X) was the last word on the grid of every entry of this value
                if intact and not carries(k, U.N):
                    problems.append(("stale-grid-after-grid_", f"entry {k} (data of item {i}) carries {carried} although grid_(X) set the grid X"))
                continue
            if intact and not carries(k, i):
                problems.append(("wrong-item-grid", f"entry {k} holds the data of source item {i} but carries {carried}"))
            elif not intact and gids[k] >= 0 and gids[k] != i:
                # voxels rearranged inside the item: the exact grid is not promised, but another item's grid is wrong
                problems.append(("wrong-item-grid", f"entry {k} holds the (spatially rearranged) data of source item {i} but carries {carried}"))
            elif not intact:
                undefs.append("voxels-rearranged-within-item")
        if any_item and is_flow(R) and axes != U.axes_name(kind):
            problems.append(("axes-changed", f"axes {axes} but the source items have axes {U.axes_name(kind)}"))
    obs = (type(R).__name__, str(data.dtype), tuple(data.shape), tuple(items), tuple(gids), axes)
    return problems, obs, undefs


def judge_copy(U, kind, x, R):
    """(d): copy / deepcopy / pickle preserve type, data, grids and axes of a typed value x."""
    problems = []
    if isinstance(R, list):  # deepcopy([x, x])
        if len(R) != 2 or R[0] is not R[1]:
            problems.append(("copy-memo", "deepcopy([x, x]) did not return one shared copy"))
        R = R[0] if R else None
    if type(R) is not type(x):
        return [("copy-type", f"{type(x).__name__} became {type(R).__name__}")]
    a, b = x.as_subclass(Tensor), R.as_subclass(Tensor)
    if a.dtype != b.dtype or a.shape != b.shape or not torch.equal(a, b):
        problems.append(("copy-data", f"data differs: {tuple(a.shape)} {a.dtype} vs {tuple(b.shape)} {b.dtype}"))
    st, pair = guarded(lambda: (list(x.grids()), list(R.grids())) if is_batch(x) else ([x.grid()], [R.grid()]))
    if st == "raises":
        problems.append(("copy-grids", "grid accessor raises: " + exc_text(pair)))
    else:
        ga, gb = pair
        if len(ga) != len(gb):
            problems.append(("copy-grids", f"{len(gb)} grids instead of {len(ga)}"))
        else:
            for k, (p, q) in enumerate(zip(ga, gb)):
                st, same = guarded(lambda: exact_attrs(observe_grid(p), observe_grid(q)))
                if st == "raises" or not same:
                    problems.append(("copy-grids", f"grid of entry {k} differs after copying"))
                    break
    if is_flow(x):
        st, same = guarded(lambda: x.axes() == R.axes())
        if st == "raises" or not same:
            problems.append(("copy-axes", "axes differ after copying"))
    return problems


# ---------------------------------------------------------------------------
def elements(v):
    """Result elements and the indices a program may be continued from."""
    if isinstance(v, (tuple, list)):
        els = list(v)
        picks = sorted({0, min(1, len(els) - 1), len(els) - 1}) if els else []
        return els, picks
    return [v], [None]


class Run:
    """One program executed from fresh values (deepali value + plain twin + affine)."""

    def __init__(self, D, kind):
        kind, _, layout = kind.partition("@")
        self.layout = layout or None
        self.U = Universe.get(D, near=kind.endswith("~near"))
        kind = kind.split("~")[0]
        self.kind = kind
        self.ci = Ctx(self.U, kind, plain=False)
        self.cp = Ctx(self.U, kind, plain=True)
        self.x = self.U.build(kind, "base", layout=self.layout)
        self.p = self.U.build(kind, "base", plain=True, layout=self.layout)
        self.aff = (1, 0)
        self.mixed = False  # an entry holds channels of items with different grids (provenance then undefined)
        self.regrid = False  # grid_(X) was applied: every entry of the value carries the grid set last
        self.lineages = []  # affine maps of entries that came from the untouched `other` value (one per combination)
        self.stale = []  # maps that an in-place elementwise step has overwritten in the value itself

    def step(self, name):
        """-> ("disabled", exc) | ("raises", exc) | ("ok", impl_result, plain_result, new_aff, in_type)"""
        group, fn, opaff = OPS[name]
        st, pr = guarded(fn, self.p, self.cp)
        if st == "raises":
            return ("disabled", pr)
        in_type = type(self.x).__name__
        st, r = guarded(fn, self.x, self.ci)
        if st == "raises":
            return ("raises", r, in_type)
        return ("ok", r, pr, aff_step(self.aff, opaff), in_type)

    def track(self, name, aff):
        """Reference state after operation `name` (new map `aff` of the main lineage): maps of the foreign lineages and
        maps overwritten in place."""
        opaff = OPS[name][2]
        inplace = OPS[name][0] == "elementwise" and name.split("(")[0].endswith("_") and isinstance(opaff, tuple)
        if inplace:
            for m in [self.aff] + self.lineages:
                if m is not None and m not in self.stale:
                    self.stale.append(m)
        self.lineages = [aff_step(m, opaff) for m in self.lineages]
        if "other" in name:
            self.lineages.append((1, 0))  # the entries of `other` enter untouched
        admissible = [aff] + self.lineages
        self.stale = [m for m in self.stale if m not in admissible]

    def advance(self, r, pr, aff, pick):
        els, _ = elements(r)
        pels, _ = elements(pr)
        idx = 0 if pick is None else pick
        if idx >= len(els) or idx >= len(pels):
            return False
        self.x, self.p, self.aff = els[idx], pels[idx], aff
        if typed(self.x) and aff is not None and not self.mixed:
            st, vs = guarded(entry_verdicts, self.U, self.x, [aff] + list(self.lineages))
            if st == "ok" and any(v == ("undef", "mixture-of-items") for v in vs):
                self.mixed = True
        return True


def sig_of(name, in_type, problem, layout=None):
    if layout:
        return f"C19/layout/{OPS[name][0]}/op={name}/type={in_type}/layout={layout}/{problem}"
    return f"C19/{OPS[name][0]}/op={name}/type={in_type}/{problem}"


def execute(D, kind, steps, acc: Acc = None):
    """Run a program; judge the result of its LAST step.
    steps = [[opname, pick], ...] (pick = element index the NEXT op continues from).
    -> (status, violations [(sig, detail)], info) ; status in ok / disabled / ended"""
    run = Run(D, kind)
    out = []
    info = {"picks": [], "typed": False, "obs": None}
    for n, (name, pick) in enumerate(steps):
        last = n == len(steps) - 1
        if not typed(run.x):
            return "ended", out, info
        x_before = run.x
        if "other" in name and not is_batch(run.x):
            # a single image combined with ANOTHER image (different grid) along channels / by broadcasting:
            # which grid such a result should carry is not promised -> provenance undefined from here on
            run.mixed = True
        if run.regrid and "other" in name:
            run.mixed = True  # entries with the re-set grid X combined with entries that keep their own grid: not tracked
        res = run.step(name)
        if "grid_(X)" in name and res[0] == "ok":
            run.regrid = True
        if acc is not None and last and res[0] != "disabled":
            acc.trans()
        if res[0] == "disabled":
            return "disabled", out, info
        if res[0] == "raises":
            if last:
                e = res[1]
                out.append((sig_of(name, res[2], "raises=" + type(e).__name__, run.layout), exc_text(e)))
                info["obs"] = ("raises", type(e).__name__)
            return "ok" if last else "ended", out, info
        _, r, pr, aff, in_type = res
        run.track(name, aff)
        if last:
            els, picks = elements(r)
            pels, _ = elements(pr)
            obs_all = []
            undef_all = []
            cont = []
            if OPS[name][0] == "copy":
                for problem, detail in judge_copy(run.U, run.kind, x_before, r):
                    out.append((sig_of(name, in_type, problem, run.layout), detail))
                info["copy"] = True
            for k, el in enumerate(els):
                if typed(el):
                    problems, obs, undefs = judge_value(run.U, run.kind, el, aff, run.mixed, run.regrid, run.lineages, run.stale)
                    for problem, detail in problems:
                        out.append((sig_of(name, in_type, problem, run.layout), (f"element {k}: " if len(els) > 1 else "") + detail))
                    obs_all.append(obs)
                    undef_all += undefs
                    info["typed"] = True
                    info.setdefault("keys", []).append(h64(obs, tensor_bytes(el.as_subclass(Tensor))))
                    twin = pels[k] if k < len(pels) else None
                    plain = el.as_subclass(Tensor)
                    same = isinstance(twin, Tensor) and twin.shape == plain.shape and twin.dtype == plain.dtype and torch.equal(twin, plain)
                    if not same:
                        # the deepali value no longer holds what the same program gives on plain tensors (not a claim
                        # of C19): do not build longer programs on it, they would be judged against the wrong twin
                        undef_all.append("data-differs-from-plain-torch-twin")
                    elif k in picks or picks == [None]:
                        cont.append(None if picks == [None] else k)
                elif isinstance(el, Tensor):
                    obs_all.append(("Tensor", tuple(el.shape)))
                else:
                    obs_all.append((type(el).__name__,))
            info["obs"] = (in_type, name, tuple(obs_all))
            info["picks"] = cont
            info["undefs"] = undef_all
            return "ok", out, info
        if not run.advance(r, pr, aff, pick):
            return "ended", out, info
    return "ok", out, info


# ---------------------------------------------------------------------------
# family programs of length 4: [observe, copy, in-place elementwise, observe] in three orders
FAM_PEEK = [None, "peek:getitem(0)", "peek:getitem(1:)", "peek:getitem(list(2,0))", "peek:iter", "peek:tensor()", "peek:narrow(0,full)", "peek:batch()", "peek:clone()"]
FAM_COPY = ["copy.copy", "copy.deepcopy", "pickle", "pickle(protocol=2)", "torch.save_load", "clone()"]
FAM_INPLACE = ["mul_(2)", "add_(1)", "neg_()", "copy_(2x)", "sub_(1)"]
FAM_OBS = ["getitem(0)", "getitem(1)", "getitem(-1)", "getitem(1:)", "getitem(list(2,0))", "getitem(ellipsis)", "iter", "reversed",
           "narrow(0,1,2)", "split(1)", "index_select(0,(2,0))", "clone()", "detach()", "cat(x,x;dim=0)"]
FAM_ORDERS = ("PCIO", "CPIO", "PICO")
assert all(n is None or n in OPS for n in FAM_PEEK + FAM_COPY + FAM_INPLACE + FAM_OBS)


def family_programs(order, peek):
    for cp in FAM_COPY:
        for ip in FAM_INPLACE:
            first3 = {"PCIO": [peek, cp, ip], "CPIO": [cp, peek, ip], "PICO": [peek, ip, cp]}[order]
            for ob in FAM_OBS:
                yield [[n, None] for n in first3 if n is not None] + [[ob, None]]


def run_family_shard(acc: Acc, shard):
    D, kind = shard["D"], shard["kind"]
    for steps in family_programs(shard["order"], shard["peek"]):
        status, viols, info = execute(D, kind, steps, acc)
        if status == "disabled":
            acc.undef("not-enabled:plain-torch-raises")
            continue
        if status == "ended":
            acc.undef("family:ended-before-last-step")
            continue
        acc.trace("family", depth=len(steps))
        case = {"D": D, "kind": kind, "steps": steps}
        for sig, detail in viols:
            acc.violation(sig, case, detail, size=len(steps))
        acc.outcome("family", info["obs"], [s[0] for s in steps][:-1])
        for r in info.get("undefs", []):
            acc.undef("provenance:" + r)
        for key in info.get("keys", []):
            acc.state(key)
            acc.nontriv("family", key, [s[0] for s in steps])
        if info["typed"] and len(acc.samples) < 1:
            acc.sample({"D": D, "kind": kind, "program": steps, "result": repr(info["obs"])[:300]})


# ---------------------------------------------------------------------------
# alias histories (two live objects): value with repeated / shared Grid objects -> deep copy -> in-place edit of one
# side (grid of item k, or data) -> read the other side (as a whole, by indexing, by iteration)
ALIAS_PREP = {
    "identity": lambda x: x,
    "getitem(list(0,0,2))": lambda x: x[[0, 0, 2]],
    "getitem(list(1,2,2,1))": lambda x: x[[1, 2, 2, 1]],
    "cat(x,x;dim=0)": lambda x: torch.cat([x, x], dim=0),
    "shared-grid": lambda x: x.grid(x.grid(0)),
    "flip(0)": lambda x: x.flip(0),
}
ALIAS_PREP_SINGLE = {
    "identity": lambda x: x,
    "getitem(1:)": lambda x: x[1:],
    "detach()": lambda x: x.detach(),
}


def _dc_tuple(partner):
    def run(x):
        r = copy.deepcopy((x, partner(x)))
        return r

    return run


ALIAS_COPY = {
    "copy.deepcopy": lambda x: copy.deepcopy(x),
    "pickle": lambda x: pickle.loads(pickle.dumps(x)),
    "torch.save_load": lambda x: _save_load(x),
    "deepcopy(list(x,x)).0": lambda x: copy.deepcopy([x, x])[0],
    "deepcopy(tuple(x,detach)).0": lambda x: copy.deepcopy((x, x.detach()))[0],
    "deepcopy(tuple(x,detach)).1": lambda x: copy.deepcopy((x, x.detach()))[1],
    "deepcopy(tuple(x,flip0)).1": lambda x: copy.deepcopy((x, x.flip(0)))[1],
    "deepcopy(tuple(flip0,x)).1": lambda x: copy.deepcopy((x.flip(0), x))[1],
    "pickle(tuple(x,detach)).1": lambda x: pickle.loads(pickle.dumps((x, x.detach())))[1],
    "deepcopy(dict(a=x,b=x[0])).a": lambda x: copy.deepcopy({"a": x, "b": x[0]})["a"],
    "deepcopy(list(items))": lambda x: copy.deepcopy(list(x)),
}
ALIAS_EDIT = ["grid.origin_", "grid.spacing_", "grid.align_corners_", "grid.center().add_", "grid.direction_", "data.mul_(2)", "data.add_(1)"]


def _entries(v):
    """[(data tensor, grid)] of every entry of a value, a list of images, read through indexing."""
    if isinstance(v, list):
        return [(im.as_subclass(Tensor), im.grid()) for im in v]
    if is_batch(v):
        return [(v.as_subclass(Tensor)[i], v.grid(i)) for i in range(v.shape[0])]
    return [(v.as_subclass(Tensor), v.grid())]


def _snapshot(v):
    """What a reader of the value sees: type, data, per-entry exact grid attributes, axes; also through v[i] / iteration."""
    out = [type(v).__name__]
    for d, g in _entries(v):
        a = observe_grid(g)
        out.append((tensor_bytes(d), tuple(x.tobytes() if isinstance(x, np.ndarray) else x for x in a)))
    if isinstance(v, list):
        return tuple(out)
    if is_flow(v):
        out.append(("axes", v.axes().value))
    if is_batch(v):
        for i, im in enumerate(list(v)):  # iteration
            out.append(("iter", i, tensor_bytes(im.as_subclass(Tensor)), tuple(x.tobytes() if isinstance(x, np.ndarray) else x for x in observe_grid(im.grid()))))
        for i in range(v.shape[0]):  # indexing
            im = v[i]
            out.append(("item", i, tensor_bytes(im.as_subclass(Tensor)), tuple(x.tobytes() if isinstance(x, np.ndarray) else x for x in observe_grid(im.grid()))))
    return tuple(out)


def _apply_edit(v, edit, k, D):
    ents = _entries(v)
    k = min(k, len(ents) - 1)
    d, g = ents[k]
    if edit == "grid.origin_":
        g.origin_(tuple(float(100 + 7 * j) for j in range(D)))
    elif edit == "grid.spacing_":
        g.spacing_(tuple(float(3 + j) for j in range(D)))
    elif edit == "grid.align_corners_":
        g.align_corners_(not g.align_corners())
    elif edit == "grid.center().add_":
        g.center().add_(2.0)
    elif edit == "grid.direction_":
        g.direction_(tuple(tuple(-1.0 if r == c else 0.0 for c in range(D)) for r in range(D)))
    elif edit == "data.mul_(2)":
        (v[k] if isinstance(v, list) else v).mul_(2)
    elif edit == "data.add_(1)":
        (v[k] if isinstance(v, list) else v).add_(1)
    else:
        raise KeyError(edit)


def alias_cases(tier):
    out = []
    for D in dims_for(tier):
        for kind in KINDS:
            batch = kind in ("ImageBatch", "FlowFields")
            preps = ALIAS_PREP if batch else ALIAS_PREP_SINGLE
            for prep in preps:
                for how in ALIAS_COPY:
                    if not batch and ("flip0" in how or "items" in how or "dict" in how):
                        continue
                    out.append({"D": D, "kind": kind, "prep": prep, "copy": how})
    return out


def alias_sig(case, target, edit, k, problem):
    return f"C19/alias/copy={case['copy']}/prep={case['prep']}/type={case['kind']}/edit-{target}={edit}@{k}/{problem}"


def run_alias(case, target, edit, k):
    """-> (status, problems [(problem, detail)], obs)"""
    D, kind = case["D"], case["kind"]
    U = Universe.get(D)
    batch = kind in ("ImageBatch", "FlowFields")
    st, x = guarded(lambda: (ALIAS_PREP if batch else ALIAS_PREP_SINGLE)[case["prep"]](U.build(kind, "base")))
    if st == "raises" or not typed(x):
        return "prep-failed", [], ("prep-failed",)
    st, c = guarded(ALIAS_COPY[case["copy"]], x)
    if st == "raises":
        return "copy-raises", [], ("copy-raises", type(c).__name__)
    if not (typed(c) or (isinstance(c, list) and c and all(typed(e) for e in c))):
        return "copy-not-typed", [], ("copy-not-typed",)
    sides = {"original": x, "copy": c}
    other = "copy" if target == "original" else "original"
    st, before = guarded(_snapshot, sides[other])
    if st == "raises":
        return "snapshot-raises", [], ("snapshot-raises", type(before).__name__)
    st, tb = guarded(_snapshot, sides[target])
    st, e = guarded(_apply_edit, sides[target], edit, k, D)
    if st == "raises":
        return "edit-raises", [], ("edit-raises", type(e).__name__)
    st, after = guarded(_snapshot, sides[other])
    problems = []
    if st == "raises":
        problems.append(("read-raises=" + type(after).__name__, exc_text(after)))
    elif after != before:
        what = []
        for i, (b, a) in enumerate(zip(before, after)):
            if b != a:
                what.append(i)
        part = "grid" if edit.startswith("grid") else "data"
        problems.append((f"deep-copy-shares-{part}/{target}->{other}", f"in-place {edit} on entry {k} of the {target} changed what the {other} holds (snapshot parts {what[:6]}): the deep copy does not preserve its own {part}"))
    st, ta = guarded(_snapshot, sides[target])
    effective = st == "ok" and ta != tb
    return "ok", problems, ("ok", effective)


def run_alias_shard(acc: Acc, shard):
    case = shard["case"]
    batch = case["kind"] in ("ImageBatch", "FlowFields")
    ks = (0, 1, 99) if batch else (0,)
    for target in ("original", "copy"):
        for edit in ALIAS_EDIT:
            for k in ks:
                if edit.startswith("data") and k != 0:
                    continue
                status, problems, obs = run_alias(case, target, edit, k)
                if status != "ok":
                    acc.undef("alias:" + status)
                    continue
                acc.trans(3)
                acc.trace("alias", depth=4)
                acc.state("alias", case, target, edit, k)
                acc.outcome("alias", case, target, edit, k, obs)
                if obs[1]:
                    acc.nontriv("alias", case, target, edit, k)
                for problem, detail in problems:
                    acc.violation(alias_sig(case, target, edit, k, problem), {"alias": case, "target": target, "edit": edit, "k": k}, detail, size=4)
                if len(acc.samples) < 1:
                    acc.sample({"alias": case, "target": target, "edit": edit, "k": k})


# ---------------------------------------------------------------------------
def shards(tier: str, seed: int):
    out = []
    for D in dims_for(tier):
        for kind in KINDS:
            for j, name in enumerate(ORDER):
                out.append({"tier": tier, "D": D, "kind": kind, "first": name})
        for kind in KINDS_NEAR:
            # small second menu in the quick tier: several first operations per shard (one fork per shard)
            step = 8 if tier == "quick" else 1
            for j in range(0, len(ORDER), step):
                out.append({"tier": tier, "D": D, "kind": kind, "first": ORDER[j : j + step]})
        for kind in KINDS_LAYOUT:
            for j in range(0, len(LAYOUT_MENU), 8):
                out.append({"tier": tier, "D": D, "kind": kind, "first": LAYOUT_MENU[j : j + 8]})
        for kind in KINDS:
            for order in FAM_ORDERS:
                for peek in FAM_PEEK:
                    out.append({"tier": tier, "D": D, "kind": kind, "family": True, "order": order, "peek": peek})
    for case in alias_cases(tier):
        out.append({"tier": tier, "alias": True, "case": case})
    return out


def _explore(acc: Acc, tier, D, kind, steps, depth_full, depth_menu):
    """Judge program `steps`; extend it by every op while the tier's bounds allow."""
    status, viols, info = execute(D, kind, steps, acc)
    if status == "disabled":
        acc.undef("not-enabled:plain-torch-raises")
        return
    if status == "ended":
        return
    names = [s[0] for s in steps]
    sub = "copy" if info.get("copy") else "programs"
    acc.trace("programs", depth=len(steps))
    if sub == "copy":
        acc.subs["copy"] += 1
    if "@" in kind:
        acc.subs["layout"] += 1
    case = {"D": D, "kind": kind, "steps": steps}
    for sig, detail in viols:
        acc.violation(sig, case, detail, size=len(steps))
    acc.outcome(info["obs"])
    for r in info.get("undefs", []):
        acc.undef("provenance:" + r)
    for key in info.get("keys", []):
        acc.state(key)
        acc.nontriv(key)
    if len(steps) >= 2 and info["typed"] and len(acc.samples) < 2:
        acc.sample({"D": D, "kind": kind, "program": steps, "result": repr(info["obs"])[:400]})
    if viols or not info["typed"]:
        return
    in_menu = all(n in MENU for n in names)
    if depth_full > 1:
        second = ORDER if tier != "quick" else (MENU_NEAR if kind.endswith("~near") else MENU2)
        if "@" in kind:
            second = LAYOUT_SECOND if tier == "quick" else MENU2
        nxt, df, dm = second, depth_full - 1, depth_menu - 1
    elif depth_menu > 1 and in_menu:
        nxt, df, dm = MENU, 0, depth_menu - 1
    else:
        return
    for pick in info["picks"]:
        base = [list(s) for s in steps]
        base[-1][1] = pick
        for name in nxt:
            if df == 0 and name not in MENU:
                continue
            _explore(acc, tier, D, kind, base + [[name, None]], df, dm)


def run_shard(shard) -> Acc:
    acc = Acc()
    tier = shard["tier"]
    if shard.get("alias"):
        run_alias_shard(acc, shard)
        return acc
    if shard.get("family"):
        run_family_shard(acc, shard)
        return acc
    depth_menu = 3 if (tier == "thorough" and shard["D"] == 2) else 2
    Universe.get(shard["D"])
    acc.state("initial", shard["D"], shard["kind"])
    firsts = shard["first"] if isinstance(shard["first"], list) else [shard["first"]]
    for first in firsts:
        _explore(acc, tier, shard["D"], shard["kind"], [[first, None]], 2, depth_menu)
    return acc


def replay(case):
    """Plain re-execution of one recorded program; returns [(sig, detail)] of its last step."""
    if "alias" in case:
        k = int(case["k"])
        _, problems, _ = run_alias(case["alias"], case["target"], case["edit"], k)
        return [(alias_sig(case["alias"], case["target"], case["edit"], k, problem), detail) for problem, detail in problems]
    steps = [[s[0], s[1]] for s in case["steps"]]
    _, viols, _ = execute(int(case["D"]), case["kind"], steps, None)
    return viols
