"""C01 - grid coordinate systems (index, cube, cube-corners, world) map consistently.

Transition system: the *frame graph* of a grid pair (A, B): 8 nodes = {A, B} x {GRID, CUBE, CUBE_CORNERS,
WORLD}; an edge is one real conversion call (Grid.transform / transform_points / transform_vectors /
apply_transform / grid_transform_* / the *_to_* helpers); a path is a composition of conversions applied to
a probe point set.  Every edge (all argument forms) and every path up to the tier depth is executed on the
real code for every grid pair of the lattice and judged by the float64 reference maps of ref/grid.py.

Further sub-checks (all complete enumerations):  anchors (index 0 = origin, ...), the per-axis sample
lattice for EVERY n in [1, 4096], the D-dimensional coords()/points() forms, grid_sample identity for all
shapes {1..9}^2 and {1..5}^3, and the Cube domain object.
"""
from __future__ import annotations

import itertools

import numpy as np
import torch

from mc.core import Acc, exc_text, guarded, h64, tensor_bytes
from ref import frames as fr
from ref import grid as rg
from ref.frames import C, EPS32
from ref.grid import CORNERS, CUBE, GRID, WORLD, RefGrid

PROPERTY = "C01"
RULE = (
    "frame graph of every grid pair (A from the lattice G(D), B from a 6-element menu derived from A): every "
    "ordered pair of the 8 frames x every argument form (to_grid none/self/clone/other, 8 shape/dtype forms, "
    "default rounding and decimals=None, points and vectors, matrix and applied forms, *_to_* helpers), every "
    "path up to the tier depth; plus anchors, coords(dim) for every n in [1,4096], coords()/points() forms, "
    "grid_sample identity for all shapes, Cube maps (Grid.cube, Grid.domain, Cube.from_grid with align_corners omitted / None / False / True, the explicit flag selecting the frame); layout: every point/vector tensor of every Grid and Cube "
    "conversion (all axes pairs, one- and two-grid) and every tensor argument of the Grid constructor as transposed / "
    "step-sliced / stride-0 expanded view on a 4-grid menu. distinct outcome = exact bytes of returned matrices / "
    "mapped probe set; non-trivial = the edge's reference map moves the probe set by more than 1e-3"
)
EXPLANATION = "bounded exhaustive exploration of the coordinate-frame graph of grid pairs against float64 reference maps"
ASSUMPTIONS = [
    "CPU, float32 grid attributes; D in {2,3}; sizes in {1,2,3,4,5,7,8} for the frame graph, n in [1,4096] for the 1-D sample lattice",
    "an affine map applied as one matrix product is decided by D+1 affinely independent probes (+1 interior non-integer, +1 outside the domain)",
    "tolerance = 64 * 2^-23 * (|L2^-1| (|A1||x| + |center| + extent of both grids) + |y|), plus half a unit of the documented default rounding, accumulated along paths with the infinity norm of the remaining linear map",
    "CUBE_CORNERS of an axis with a single sample is undefined (division by n-1 = 0) and not judged",
    "the shape (D,D) vs (D,D+1) and the dtype of returned matrices / tensors are not part of the statement and not judged",
]
MIN_NONTRIVIAL = {"quick": 7500, "thorough": 45000}
MIN_OUTCOMES = {"quick": 35000, "thorough": 250000}
MIN_SUB_TRACES = {"edge": 1000, "path": 1000, "anchors": 20, "lattice1d": 8000, "coordsND": 20, "gridsample": 400, "cube": 50, "layout": 2300}

AXN = (GRID, CUBE, CORNERS, WORLD)
# path depth by tier and rounding mode; thorough explores depth 3 (default rounding) for the second grids in DEEP_B
PATH_DEPTH = {"quick": {"default": 2, "none": 2}, "thorough": {"default": 3, "none": 2}}
DEEP_B = ("shift", "rot")
WRAPPER_B = ("rot",)  # second grids for which the pass-through wrappers (grid_*_transform*, apply_transform) are also called


def path_depth(tier: str, bname: str, mode: str, deep_grid: bool) -> int:
    """0 = not explored. decimals=None paths only for the second grids in DEEP_B; depth 3 (thorough) only
    for DEEP_B on the grids of the covering sub-lattice."""
    d = PATH_DEPTH[tier][mode]
    if mode == "none" and bname not in DEEP_B:
        return 0
    if d > 2 and not (bname in DEEP_B and deep_grid):
        d = 2
    return d
NMAX = 4096
N_CHUNKS = 32


# ---------------------------------------------------------------------------
# configuration space
def lattice(tier: str, seed: int):
    out = []
    for D in (2, 3):
        out += fr.lattice(D, tier, seed)
    # grids with a single sample along one axis (CUBE_CORNERS frames excluded by the domain predicate)
    dirs2 = rg.direction_menu(2, seed)
    dirs3 = rg.direction_menu(3, seed)
    for ac in (True, False):
        out.append({"size": [1, 5], "spacing": [0.5, 1.25], "origin": [10.5, -3.25], "direction": dirs2["rot"], "ac": ac, "dir": "rot"})
        out.append({"size": [4, 1], "spacing": [1.0, 1.0], "origin": [0.0, 0.0], "direction": dirs2["perm"], "ac": ac, "dir": "perm"})
        out.append({"size": [4, 1, 3], "spacing": [0.5, 1.25, 2.0], "origin": [10.5, -3.25, 100.0], "direction": dirs3["rot"], "ac": ac, "dir": "rot"})
    # grids whose STORED size is fractional while they have ceil(size) samples: every lattice grid with an odd
    # axis (all axes >= 3) halved by downsample(); a larger odd grid; an uneven resample(); float size=
    derived = []
    for spec in out:
        z = spec["size"]
        if min(z) >= 3 and any(n % 2 for n in z):
            derived.append(dict(spec, derive="downsample"))
    for ac in (True, False):
        derived.append({"size": [9, 13], "spacing": [0.5, 1.25], "origin": [10.5, -3.25], "direction": dirs2["rot"], "ac": ac, "dir": "rot", "derive": "downsample"})
        derived.append({"size": [9, 7, 5], "spacing": [0.5, 1.25, 2.0], "origin": [0.0, 0.0, 0.0], "direction": dirs3["perm"], "ac": ac, "dir": "perm", "derive": "downsample"})
        derived.append({"size": [8, 5], "spacing": [0.5, 1.25], "origin": [10.5, -3.25], "direction": dirs2["rot"], "ac": ac, "dir": "rot", "derive": {"resample": [0.7, 1.1]}})
        derived.append({"size": [4.5, 6.5], "spacing": [1.0, 1.0], "origin": [0.0, 0.0], "direction": dirs2["perm"], "ac": ac, "dir": "perm"})
    return out + derived


def is_fractional(spec: dict) -> bool:
    return "derive" in spec or any(float(n) != int(n) for n in spec["size"])


def build_real(spec: dict):
    """Real deepali grid of a spec; 'derive' applies the real derivation call."""
    g = rg.real_grid({k: v for k, v in spec.items() if k != "derive"})
    d = spec.get("derive")
    if d == "downsample":
        g = g.downsample()
    elif d == "upsample":
        g = g.upsample()
    elif isinstance(d, dict) and "resample" in d:
        g = g.resample(tuple(d["resample"]))
    elif isinstance(d, dict) and "resize" in d:
        g = g.resize(tuple(d["resize"]))
    elif isinstance(d, dict) and "cube_grid" in d:
        g = g.cube().grid(size=tuple(d["cube_grid"]), align_corners=bool(d["ac"]))
    return g


def build_ref(spec: dict) -> RefGrid:
    """Reference grid of a spec. Derived grids follow the derivation promises (C03): same center and
    direction; downsample halves the stored size (number of samples n = ceil(size)) keeping the corner samples
    (flag True) or the extent n*s (flag False); resample keeps the extent n*s and sets the spacing."""
    r = rg.ref_grid({k: v for k, v in spec.items() if k != "derive"})
    d = spec.get("derive")
    if d == "downsample":
        r = rg.resized(r, r.z / 2.0)
    elif d == "upsample":
        r = rg.resized(r, r.z * 2.0)
    elif isinstance(d, dict) and "resize" in d:
        r = rg.resized(r, np.asarray(d["resize"], dtype=np.float64))
    elif isinstance(d, dict) and "cube_grid" in d:
        # grid of another size (and flag) over the SAME cube: cube extent (n-1)s | ns of the source kept
        z = np.asarray(d["cube_grid"], dtype=np.float64)
        out = r.copy()
        ce = r.cube_extent()
        out.z, out.ac = z, bool(d["ac"])
        out.s = ce / (z - 1) if out.ac else ce / z
        r = out
    elif isinstance(d, dict) and "resample" in d:
        s_new = np.asarray(d["resample"], dtype=np.float64)
        out = r.copy()
        out.z = r.extent / s_new
        out.s = s_new
        r = out
    return r


_SIZE_SWAP = {1: 1, 2: 5, 3: 8, 4: 7, 5: 2, 7: 4, 8: 3}


def b_menu(spec: dict, seed: int):
    """Second grids derived from A: same, shifted by a fractional sample, rotated, other size, other
    spacing, other align_corners flag."""
    D = len(spec["size"])
    rA = build_ref(spec)
    frac = np.array([0.3, -0.45, 0.7][:D])
    gen = fr.generic_rotations(D, seed + 1, 1)[0]
    if is_fractional(spec):
        # second grids of a fractional-size grid are built directly with the (fractional) float size=
        base = {"size": rA.z.tolist(), "spacing": rA.s.tolist(), "direction": rA.R.tolist(), "ac": rA.ac}
        out = [
            ("shift", dict(base, center=(rA.c + rA.R @ (rA.s * frac)).tolist())),
            ("rot", dict(base, direction=(gen @ rA.R).tolist(), center=(rA.c + np.array([1.5, -2.25, 0.75][:D])).tolist())),
        ]
        if spec.get("derive") == "downsample":
            # the grid it was derived from: another pyramid level over the same domain
            out.append(("sd-parent", {k: v for k, v in spec.items() if k != "derive"}))
        return out
    base = {"size": spec["size"], "spacing": spec["spacing"], "direction": spec["direction"], "ac": spec["ac"]}
    out = []
    out.append(("same", dict(base, origin=spec["origin"])))
    out.append(("shift", dict(base, center=(rA.c + rA.R @ (rA.s * frac)).tolist())))
    Rb = gen @ rA.R
    out.append(("rot", dict(base, direction=Rb.tolist(), center=(rA.c + np.array([1.5, -2.25, 0.75][:D])).tolist())))
    out.append(("size", dict(base, size=[_SIZE_SWAP[n] for n in spec["size"]], origin=spec["origin"])))
    fac = np.array([1.5, 0.4, 2.5][:D])
    out.append(("spacing", dict(base, spacing=(np.array(spec["spacing"]) * fac).tolist(), center=rA.c.tolist())))
    out.append(("ac", dict(base, origin=spec["origin"], ac=not spec["ac"])))
    if min(spec["size"]) == 1:
        out = [o for o in out if o[0] in ("shift", "rot", "spacing")]
    else:
        # second grids over the SAME world domain (same cube) with other sampling: resized, upsampled, and the
        # same cube sampled with the other align_corners flag
        other = [_SIZE_SWAP[n] for n in spec["size"]]
        out.append(("sd-resize", dict(base, origin=spec["origin"], derive={"resize": other})))
        out.append(("sd-up", dict(base, origin=spec["origin"], derive="upsample")))
        out.append(("sd-flag", dict(base, origin=spec["origin"], derive={"cube_grid": other, "ac": not spec["ac"]})))
    return out


def bounds(tier):
    L = lattice(tier, 0)
    return {
        "lattice_grids": len(L),
        "second_grids_per_grid": "6 + 3 same-domain grids (resize, upsample, same cube with the other flag)",
        "fractional_size_grids": sum(1 for s in L if is_fractional(s)),
        "grid_pairs": sum(len(b_menu(s, 0)) for s in L),
        "frames_per_pair": 8,
        "ordered_frame_pairs": 64,
        "point_forms": len(FORMS),
        "path_depth_default_rounding": PATH_DEPTH[tier]["default"],
        "path_depth_3_on": "second grids shift, rot of the covering sub-lattice (quick lattice)" if PATH_DEPTH[tier]["default"] > 2 else "none",
        "decimals_none_paths_on_second_grids": list(DEEP_B),
        "path_depth_decimals_none": PATH_DEPTH[tier]["none"],
        "n_range": [1, NMAX],
        "gridsample_shapes": 81 + 125,
        "layout": {"grids": len(layout_specs(0)), "forms": list(LAYOUT_FORMS), "constructor_arguments": ["size", "spacing", "direction", "origin", "center"]},
    }


# ---------------------------------------------------------------------------
class Sink:
    """Forwards bookkeeping to an Acc (explorer) or only collects (sig, detail) (replay)."""

    def __init__(self, acc: Acc = None):
        self.acc = acc
        self.out = []
        self.info = acc.info if acc is not None else {}
        self.samples = acc.samples if acc is not None else []

    def violation(self, sig, case, detail, size=1):
        # fnmatch-friendly signatures: no brackets (character classes), no blanks (findings-file tokens)
        sig = sig.replace("[", "(").replace("]", ")").replace(" ", "")
        self.out.append((sig, detail))
        if self.acc is not None:
            self.acc.violation(sig, case, detail, size=size)

    def __getattr__(self, name):
        acc = self.__dict__.get("acc")
        if acc is not None:
            return getattr(acc, name)
        return lambda *a, **k: None


def real_axes(ax: str):
    from deepali.core.grid import Axes

    return Axes(ax)


def node_label(node):
    return ("A", "B")[node[0]] + "." + node[1]


def probe_index(r: RefGrid) -> np.ndarray:
    """6 probe points in index space: D+1 affinely independent, interior non-integer, outside, center."""
    D = r.D
    n = r.n
    pts = [np.zeros(D)]
    for d in range(D):
        e = np.zeros(D)
        e[d] = max(n[d] - 1, 1.0)
        pts.append(e)
    pts.append((n - 1) * np.array([0.3, 0.6, 0.45][:D]) + 0.125)
    pts.append(np.array([-1.5, n[1] + 2.0, -2.25][:D]))
    if D == 2:
        pts.append((n - 1) / 2)
    return np.array(pts, dtype=np.float64)


VEC = {
    2: np.array([[1.0, 0.0], [0.0, 1.0], [0.5, -1.25], [-2.0, 0.75], [0.0, 0.0], [3.0, 3.0]]),
    3: np.array([[1.0, 0, 0], [0, 1.0, 0], [0, 0, 1.0], [0.5, -1.25, 2.0], [-2.0, 0.75, 0.25], [3.0, 3.0, -3.0]]),
}

# (form name, dtype) ; the first one is the baseline form
FORMS = (("MD", "f32"), ("D", "f32"), ("1MD", "f32"), ("23D", "f32"), ("MD", "f64"), ("23D", "f64"), ("MD", "i64"), ("D", "i32"))


def shaped(a: np.ndarray, form: str) -> np.ndarray:
    D = a.shape[-1]
    if form == "MD":
        return a
    if form == "D":
        return a[4]
    if form == "1MD":
        return a[None]
    if form == "23D":
        return a.reshape(2, 3, D)
    raise KeyError(form)


def to_tensor(a: np.ndarray, dt: str):
    if dt == "f32":
        return torch.tensor(a, dtype=torch.float32)
    if dt == "f64":
        return torch.tensor(a, dtype=torch.float64)
    if dt == "i64":
        return torch.tensor(np.rint(a), dtype=torch.int64)
    if dt == "i32":
        return torch.tensor(np.rint(a), dtype=torch.int32)
    raise KeyError(dt)


def form_input(x32: np.ndarray, form, dt):
    """(tensor passed to the implementation, float64 array the reference evaluates)."""
    a = shaped(x32, form)
    if dt.startswith("i"):
        a = np.rint(a)
    return to_tensor(a, dt), a.astype(np.float64)


def as_np(t):
    return t.detach().double().numpy()


def compare(got, exp: np.ndarray, tol: float):
    """None if ok, else (kind, detail)."""
    if not isinstance(got, torch.Tensor):
        return "type", f"returned {type(got).__name__}"
    if tuple(got.shape) != tuple(exp.shape):
        return "shape", f"shape {tuple(got.shape)} expected {tuple(exp.shape)}"
    g = as_np(got)
    if not np.all(np.isfinite(g)):
        return "value", "non-finite result"
    err = float(np.abs(g - exp).max()) if g.size else 0.0
    if err > tol:
        return "value", f"max abs error {err:.3e} > tol {tol:.3e}; got {g.reshape(-1)[:6].round(6).tolist()} expected {exp.reshape(-1)[:6].round(6).tolist()}"
    return None


def matrix_apply(M, x: np.ndarray, D: int):
    """Interpret a returned matrix as an affine map and apply it in float64. None if shape unusable."""
    if not isinstance(M, torch.Tensor) or M.ndim != 2 or M.shape[0] < D or M.shape[1] not in (D, D + 1):
        return None
    m = as_np(M)
    y = x @ m[:D, :D].T
    if m.shape[1] == D + 1:
        y = y + m[:D, D]
    return y


# ---------------------------------------------------------------------------
class Pair:
    """A grid pair (A, B): real objects, references, probe sets; B may be None (single-grid units)."""

    def __init__(self, specA: dict, specB: dict = None, bname: str = ""):
        self.specs = [specA, specB]
        self.bname = bname
        self.D = len(specA["size"])
        self.refs = [build_ref(specA), build_ref(specB) if specB is not None else None]
        self.err = None
        st, g = guarded(lambda: [build_real(specA), build_real(specB) if specB is not None else None])
        if st == "raises":
            self.err = g
            self.grids = [None, None]
        else:
            self.grids = g
        self.nodes = []
        for gi in (0, 1):
            if self.refs[gi] is None:
                continue
            for ax in AXN:
                if ax == CORNERS and self.refs[gi].n.min() < 2:
                    continue
                self.nodes.append((gi, ax))
        self.P = {}
        for node in self.nodes:
            r = self.refs[node[0]]
            x = r.map_points(probe_index(r), GRID, node[1])
            self.P[node] = x.astype(np.float32).astype(np.float64)

        # cached reference maps per node: world = A x + b
        self.W = {}
        for node in self.nodes:
            A, b = self.refs[node[0]].to_world(node[1])
            Ai = np.linalg.inv(A)
            self.W[node] = (A, b, Ai, np.abs(A), np.abs(Ai))
        self.mag = [fr.world_mag(r) if r is not None else None for r in self.refs]
        self._lin = {}
        self._key = h64(repr(self.specs))

    def lin(self, s, d):
        """(L, t): y = L x + t maps frame s to frame d (float64 reference)."""
        k = (s, d)
        v = self._lin.get(k)
        if v is None:
            A1, b1 = self.W[s][0], self.W[s][1]
            A2i = self.W[d][2]
            v = (A2i @ A1, A2i @ (b1 - self.W[d][1]))
            self._lin[k] = v
        return v

    def mapp(self, s, d, x):
        L, t = self.lin(s, d)
        return np.asarray(x, dtype=np.float64) @ L.T + t

    def mapv(self, s, d, v):
        return np.asarray(v, dtype=np.float64) @ self.lin(s, d)[0].T

    def tolp(self, s, d, x) -> float:
        """fr.tol_points with cached matrices."""
        x = np.atleast_2d(np.asarray(x, dtype=np.float64)).reshape(-1, self.D)
        inner = np.abs(x) @ self.W[s][3].T + self.mag[s[0]] + self.mag[d[0]]
        bound = inner @ self.W[d][4].T + np.abs(self.mapp(s, d, x))
        return float(C * EPS32 * bound.max())

    def tolv(self, s, d, v) -> float:
        v = np.atleast_2d(np.asarray(v, dtype=np.float64)).reshape(-1, self.D)
        L = self.W[d][4] @ self.W[s][3]
        return float(C * EPS32 * (np.abs(v) @ L.T).max()) + 1e-30

    def linnorm(self, s, d) -> float:
        return float(np.abs(self.lin(s, d)[0]).sum(axis=1).max())

    def case(self, **kw):
        c = {"A": self.specs[0], "B": self.specs[1], "bname": self.bname}
        c.update(kw)
        return c

    def key(self):
        return self._key


def call_edge(pair: Pair, src, dst, x, tg_form, fn: str, decimals=-1, axes_as_str=False, omit_to_axes=False):
    """The real conversion call for edge src -> dst on tensor x."""
    G = pair.grids[src[0]]
    T = pair.grids[dst[0]]
    if tg_form == "none":
        tg = None
    elif tg_form == "self":
        tg = G
    elif tg_form == "clone":
        tg = G.clone()
    else:
        tg = T
    a1 = src[1] if axes_as_str else real_axes(src[1])
    a2 = None if omit_to_axes else (dst[1] if axes_as_str else real_axes(dst[1]))
    if fn == "transform_points":
        return G.transform_points(x, a1, a2, to_grid=tg, decimals=decimals)
    if fn == "apply_transform":
        return G.apply_transform(x, a1, a2, to_grid=tg, decimals=decimals)
    if fn == "apply_transform_vectors":
        return G.apply_transform(x, a1, a2, to_grid=tg, vectors=True, decimals=None)
    if fn == "transform_vectors":
        return G.transform_vectors(x, a1, a2, to_grid=tg)
    if fn == "grid_transform_points":
        from deepali.core.grid import grid_transform_points

        return grid_transform_points(x, G, a1, T if tg is None else tg, a2, decimals=decimals)
    if fn == "grid_transform_vectors":
        from deepali.core.grid import grid_transform_vectors

        return grid_transform_vectors(x, G, a1, T if tg is None else tg, a2)
    if fn == "transform":
        return G.transform(a1, a2, to_grid=tg, vectors=False)
    if fn == "transform_vec":
        return G.transform(a1, a2, to_grid=tg, vectors=True)
    if fn == "grid_points_transform":
        from deepali.core.grid import grid_points_transform

        return grid_points_transform(G, a1, T if tg is None else tg, a2)
    if fn == "grid_vectors_transform":
        from deepali.core.grid import grid_vectors_transform

        return grid_vectors_transform(G, a1, T if tg is None else tg, a2)
    raise KeyError(fn)


def helper_calls(src_ax: str, dst_ax: str, ac: bool):
    """The *_to_* helper forms that denote the same-grid edge src_ax -> dst_ax: list of (name, kwargs)."""
    out = []

    def flags(cube_ax):
        f = [{"align_corners": cube_ax == CORNERS}]
        if (cube_ax == CORNERS) == ac:
            f.append({})  # default flag of the grid
        return f

    if src_ax == GRID and dst_ax in (CUBE, CORNERS):
        out += [("index_to_cube", k) for k in flags(dst_ax)]
    if src_ax in (CUBE, CORNERS) and dst_ax == GRID:
        out += [("cube_to_index", k) for k in flags(src_ax)]
    if src_ax == GRID and dst_ax == WORLD:
        out.append(("index_to_world", {}))
    if src_ax == WORLD and dst_ax == GRID:
        out.append(("world_to_index", {}))
    if src_ax in (CUBE, CORNERS) and dst_ax == WORLD:
        out += [("cube_to_world", k) for k in flags(src_ax)]
    if src_ax == WORLD and dst_ax in (CUBE, CORNERS):
        out += [("world_to_cube", k) for k in flags(dst_ax)]
    return out


def check_edge(sink: Sink, pair: Pair, src, dst, tg_form: str, wrappers: bool = True):
    """All argument forms of the one edge src -> dst (one unit; replayable)."""
    D = pair.D
    rs = pair.refs[src[0]]
    x32 = pair.P[src]
    case = pair.case(sub="edge", src=list(src), dst=list(dst), tg=tg_form)
    base = f"C01/edge/{{}}/{src[1]}->{dst[1]}/{tg_form}"
    exp_fn = lambda a: pair.mapp(src, dst, a)  # noqa: E731
    expv_fn = lambda a: pair.mapv(src, dst, a)  # noqa: E731
    tol0 = pair.tolp(src, dst, x32)
    full = tg_form in ("none", "other")  # "other-light": second grid, baseline forms only
    nviol = len(sink.out)

    def emit(fn, kind, detail, form=None):
        sig = base.format(fn) + "/" + kind + (f"/form={form}" if form else "")
        sink.violation(sig, case, f"{node_label(src)}->{node_label(dst)} [{pair.bname or 'single'}] {fn}: {detail}", size=1)

    # -- 1. matrices -------------------------------------------------------
    y_m = None
    for fn in ("transform", "grid_points_transform") if (full and wrappers) else ("transform",):
        sink.trans()
        st, M = guarded(call_edge, pair, src, dst, None, tg_form, fn)
        sink.outcome("M", pair.key(), src, dst, tg_form, tensor_bytes(M) if st == "ok" else "raises:" + type(M).__name__)
        if st == "raises":
            emit(fn, "raises=" + type(M).__name__, exc_text(M))
            continue
        ym = matrix_apply(M, x32, D)
        if ym is None:
            emit(fn, "matrix-shape", f"returned {tuple(M.shape) if isinstance(M, torch.Tensor) else type(M).__name__}")
            continue
        exp = exp_fn(x32)
        err = float(np.abs(ym - exp).max())
        if not np.isfinite(err) or err > tol0:
            emit(fn, "value", f"matrix applied to probes: max abs error {err:.3e} > tol {tol0:.3e}; matrix {as_np(M).round(5).tolist()}")
        elif fn == "transform":
            y_m = ym
    V = VEC[D].astype(np.float32).astype(np.float64)
    tolv = pair.tolv(src, dst, V)
    for fn in ("transform_vec", "grid_vectors_transform") if (full and wrappers) else ("transform_vec",):
        sink.trans()
        st, M = guarded(call_edge, pair, src, dst, None, tg_form, fn)
        sink.outcome("Mv", pair.key(), src, dst, tg_form, tensor_bytes(M) if st == "ok" else "raises:" + type(M).__name__)
        if st == "raises":
            emit(fn, "raises=" + type(M).__name__, exc_text(M))
            continue
        if not isinstance(M, torch.Tensor) or M.ndim != 2 or M.shape[0] != D or M.shape[1] not in (D, D + 1):
            emit(fn, "matrix-shape", f"returned {tuple(M.shape) if isinstance(M, torch.Tensor) else type(M).__name__}")
            continue
        yv = V @ as_np(M)[:, :D].T
        err = float(np.abs(yv - expv_fn(V)).max())
        if not np.isfinite(err) or err > tolv:
            emit(fn, "value", f"vector matrix applied to probes: max abs error {err:.3e} > tol {tolv:.3e}; matrix {as_np(M).round(5).tolist()}")

    # -- 2. points, all forms ---------------------------------------------
    forms = FORMS if full else FORMS[:1]
    base_ok = {}
    for decimals in (-1, None):
        dname = "default" if decimals == -1 else "none"
        for fi, (form, dt) in enumerate(forms):
            if fi > 0 and decimals == -1:
                break  # shape/dtype forms are enumerated with decimals=None (the rounding step is elementwise)
            t, xin = form_input(x32, form, dt)
            before = tensor_bytes(t)
            sink.trans()
            st, got = guarded(call_edge, pair, src, dst, t, tg_form, "transform_points", decimals)
            fname = None if fi == 0 else form + dt
            if fi == 0:
                sink.outcome("P", pair.key(), src, dst, tg_form, dname, tensor_bytes(got) if st == "ok" else "raises:" + type(got).__name__)
            if fi > 0 and not base_ok.get(decimals, False):
                sink.undef("edge: baseline form failed, further forms not judged")
                continue
            tol = pair.tolp(src, dst, xin) + fr.rounding_term(dst[1], decimals)
            if st == "raises":
                emit("transform_points", "raises=" + type(got).__name__ + f"/decimals={dname}", exc_text(got), fname)
                continue
            bad = compare(got, exp_fn(xin), tol)
            if bad:
                emit("transform_points", bad[0] + f"/decimals={dname}", bad[1], fname)
                continue
            if tensor_bytes(t) != before:
                emit("transform_points", "input-modified", "the input tensor was modified in place", fname)
            if fi == 0:
                base_ok[decimals] = True
                if decimals is None and y_m is not None:
                    # every probe agrees with the returned matrix: no other branch than one matrix product
                    bad = compare(got, y_m, tol)
                    if bad:
                        emit("transform_points", "differs-from-matrix", bad[1])
    # other entry points of the same map (baseline form)
    t0, xin0 = form_input(x32, "MD", "f32")
    tolp = pair.tolp(src, dst, xin0)
    others = []
    if wrappers or not full:
        others = [("apply_transform", dict(decimals=-1)), ("grid_transform_points", dict(decimals=-1)), ("grid_transform_points", dict(decimals=None))]
    if full and wrappers:
        others.append(("transform_points", dict(decimals=-1, axes_as_str=True)))
        if src[1] == dst[1]:
            others.append(("transform_points", dict(decimals=None, omit_to_axes=True)))
    if base_ok.get(-1) and base_ok.get(None):
        for fn, kw in others:
            sink.trans()
            st, got = guarded(call_edge, pair, src, dst, t0, tg_form, fn, **kw)
            label = fn + ("[str-axes]" if kw.get("axes_as_str") else "") + ("[to_axes=None]" if kw.get("omit_to_axes") else "")
            if label == "transform_points":
                label = "transform_points[enum]"
            if st == "raises":
                emit(label, "raises=" + type(got).__name__, exc_text(got))
                continue
            bad = compare(got, exp_fn(xin0), tolp + fr.rounding_term(dst[1], kw.get("decimals")))
            if bad:
                emit(label, bad[0], bad[1])

    # -- 3. vectors, all forms --------------------------------------------
    vbase_ok = False
    vgot0 = None
    for fi, (form, dt) in enumerate(forms):
        t, vin = form_input(V, form, dt)
        before = tensor_bytes(t)
        sink.trans()
        st, got = guarded(call_edge, pair, src, dst, t, tg_form, "transform_vectors")
        fname = None if fi == 0 else form + dt
        if fi == 0:
            sink.outcome("V", pair.key(), src, dst, tg_form, tensor_bytes(got) if st == "ok" else "raises:" + type(got).__name__)
        if fi > 0 and not vbase_ok:
            sink.undef("edge: baseline form failed, further forms not judged")
            continue
        tol = pair.tolv(src, dst, vin)
        if st == "raises":
            emit("transform_vectors", "raises=" + type(got).__name__, exc_text(got), fname)
            continue
        bad = compare(got, expv_fn(vin), tol)
        if bad:
            emit("transform_vectors", bad[0], bad[1], fname)
            continue
        if tensor_bytes(t) != before:
            emit("transform_vectors", "input-modified", "the input tensor was modified in place", fname)
        if fi == 0:
            vbase_ok = True
            vgot0 = got
    if vbase_ok:
        tv, vin = form_input(V, "MD", "f32")
        for fn in ("apply_transform_vectors", "grid_transform_vectors") if (wrappers or not full) else ():
            sink.trans()
            st, got = guarded(call_edge, pair, src, dst, tv, tg_form, fn)
            if st == "raises":
                emit(fn, "raises=" + type(got).__name__, exc_text(got))
                continue
            bad = compare(got, expv_fn(vin), tolv)
            if bad:
                emit(fn, bad[0], bad[1])
    # vectors transform by exactly the linear part of the point map (reference-free)
    if vbase_ok and base_ok.get(None):
        dv = (x32[1:] - x32[0]).astype(np.float32).astype(np.float64)
        xs = np.concatenate([x32[:1], (x32[0] + dv).astype(np.float32).astype(np.float64)])
        dv = xs[1:] - xs[0]
        dv32 = dv.astype(np.float32).astype(np.float64)
        sink.trans(2)
        st1, pm = guarded(call_edge, pair, src, dst, torch.tensor(xs, dtype=torch.float64), tg_form, "transform_points", None)
        st2, vm = guarded(call_edge, pair, src, dst, torch.tensor(dv32, dtype=torch.float64), tg_form, "transform_vectors")
        if st1 == "ok" and st2 == "ok" and isinstance(pm, torch.Tensor) and isinstance(vm, torch.Tensor) and pm.shape == (len(xs), D) and vm.shape == (len(dv), D):
            diff = as_np(pm)[1:] - as_np(pm)[0]
            tol = 2 * pair.tolp(src, dst, xs) + pair.tolv(src, dst, dv) + C * EPS32 * pair.linnorm(src, dst) * np.abs(dv).max()
            err = float(np.abs(diff - as_np(vm)).max())
            if not np.isfinite(err) or err > tol:
                emit("transform_vectors", "not-linear-part-of-point-map", f"mapped difference vs difference of mapped points: {err:.3e} > tol {tol:.3e}")

    # -- 4. *_to_* helpers (same grid, to_grid=None only) -------------------
    if tg_form == "none" and src[0] == dst[0]:
        G = pair.grids[src[0]]
        for name, kw in helper_calls(src[1], dst[1], rs.ac):
            for decimals in (-1, None):
                sink.trans()
                st, got = guarded(lambda: getattr(G, name)(t0, decimals=decimals, **kw))
                label = name + ("[ac=default]" if not kw else "")
                if st == "raises":
                    emit(label, "raises=" + type(got).__name__, exc_text(got))
                    continue
                bad = compare(got, exp_fn(xin0), tolp + fr.rounding_term(dst[1], decimals))
                if bad:
                    emit(label, bad[0] + f"/decimals={'default' if decimals == -1 else 'none'}", bad[1])

    # bookkeeping
    moved = float(np.abs(exp_fn(x32) - x32).max())
    if moved > 1e-3:
        sink.nontriv(pair.key(), src, dst)
    sink.trace("edge", depth=1)
    return len(sink.out) == nviol


# ---------------------------------------------------------------------------
def path_call(pair: Pair, a, b, x, decimals):
    return call_edge(pair, a, b, x, "none" if a[0] == b[0] else "other", "transform_points", decimals)


class PathTables:
    """Per pair: step tolerances and propagation factors for every (start, prev, node)."""

    def __init__(self, pair: Pair, decimals):
        self.pair = pair
        self.dec = decimals
        nodes = pair.nodes
        self.lin = {}
        for a in nodes:
            for b in nodes:
                self.lin[(a, b)] = pair.linnorm(a, b)
        self.step = {}
        for n0 in nodes:
            x0 = pair.P[n0]
            for a in nodes:
                xa = pair.mapp(n0, a, x0)
                for b in nodes:
                    self.step[(n0, a, b)] = pair.tolp(a, b, xa) + fr.rounding_term(b[1], decimals)


def judge_path_state(sink, pair, tables, path, x, tol_acc, direct, decimals):
    """Invariant in a reached state: closed walk returns to the start; open walk equals the direct edge."""
    n0, node = path[0], path[-1]
    dname = "default" if decimals == -1 else "none"
    label = ">".join(node_label(n) for n in path)
    if node == n0:
        exp = pair.P[n0]
        tol = tol_acc
        kind = "closed"
    else:
        d = direct.get((n0, node))
        if d is None:
            sink.undef("path: direct edge unavailable")
            return True
        exp = d
        tol = tol_acc + tables.step[(n0, n0, node)]
        kind = "open"
    bad = compare(x, exp, tol)
    sink.trace("path", depth=len(path) - 1)
    if bad:
        case = pair.case(sub="path", nodes=[list(n) for n in path], decimals=decimals)
        what = "does not return to the start" if kind == "closed" else "differs from the direct edge"
        sink.violation(f"C01/path/{kind}/len={len(path) - 1}/decimals={dname}/{label}", case, f"[{pair.bname}] walk {label} {what}: {bad[1]}", size=len(path) - 1)
        return False
    return True


def explore_paths(sink: Sink, pair: Pair, decimals, depth: int, only_path=None):
    """All paths of length <= depth through the frame graph (prefix-sharing DFS), or one recorded path."""
    tables = PathTables(pair, decimals)
    nodes = pair.nodes
    dname = "default" if decimals == -1 else "none"
    starts = nodes if only_path is None else [tuple(only_path[0])]
    for n0 in starts:
        x0 = torch.tensor(pair.P[n0], dtype=torch.float32)
        direct = {}
        for b in nodes:
            sink.trans()
            st, y = guarded(path_call, pair, n0, b, x0, decimals)
            if st == "ok" and isinstance(y, torch.Tensor) and tuple(y.shape) == tuple(x0.shape):
                direct[(n0, b)] = as_np(y)
                sink.state(pair.key(), dname, n0, b)

        def dfs(path, x, tol_acc):
            if len(path) - 1 >= depth:
                return
            a = path[-1]
            for b in nodes:
                if only_path is not None and (len(path) >= len(only_path) or tuple(only_path[len(path)]) != b):
                    continue
                if len(path) == 1:
                    y = direct.get((n0, b))
                    if y is None:
                        continue  # reported at edge level
                    yt = torch.tensor(y, dtype=torch.float32)
                    t2 = tables.step[(n0, a, b)]
                    dfs(path + [b], yt, t2)
                    continue
                sink.trans()
                st, yt = guarded(path_call, pair, a, b, x, decimals)
                if st == "raises" or not isinstance(yt, torch.Tensor):
                    continue  # reported at edge level
                t2 = tol_acc * tables.lin[(a, b)] + tables.step[(n0, a, b)]
                p2 = path + [b]
                if judge_path_state(sink, pair, tables, p2, yt, t2, direct, decimals):
                    dfs(p2, yt, t2)

        dfs([n0], x0, 0.0)


# ---------------------------------------------------------------------------
def check_anchors(sink: Sink, pair: Pair):
    """Documented anchors of a single grid (statement sentence 1, last clause)."""
    G, r = pair.grids[0], pair.refs[0]
    D = r.D
    n = r.n
    case = pair.case(sub="anchors")
    tw = fr.tol_points(r, GRID, r, WORLD, np.array([n]))
    f32 = lambda a: torch.tensor(np.asarray(a), dtype=torch.float32)  # noqa: E731

    def emit(name, kind, detail):
        sink.violation(f"C01/anchor/{name}/{kind}", case, f"{name}: {detail}", size=1)

    def run(name, fn, exp, tol):
        sink.trans()
        st, got = guarded(fn)
        if st == "raises":
            emit(name, "raises=" + type(got).__name__, exc_text(got))
            return None
        bad = compare(got, np.asarray(exp, dtype=np.float64), tol)
        if bad:
            emit(name, bad[0], bad[1])
            return None
        return got

    zero = np.zeros((1, D))
    last = (n - 1)[None]
    origin = np.asarray(pair.specs[0]["origin"], dtype=np.float64)[None] if ("origin" in pair.specs[0] and "derive" not in pair.specs[0]) else r.origin[None]
    # index 0 is the origin (the spec's origin, and the attribute the grid reports)
    run("index0-is-origin", lambda: G.index_to_world(f32(zero)), origin, tw)
    run("origin-attribute", lambda: G.origin().reshape(1, D), origin, tw)
    # index (n-1)/2 is the center
    run("mid-index-is-center", lambda: G.index_to_world(f32((n - 1)[None] / 2)), r.c[None], tw)
    run("center-attribute", lambda: G.center().reshape(1, D), r.c[None], tw)
    run("center-to-index", lambda: G.world_to_index(G.center().reshape(1, D)), (n - 1)[None] / 2, fr.tol_points(r, WORLD, r, GRID, r.c[None]) + 0.5e-6)
    ones = np.ones((1, D))
    if n.min() >= 2:
        # cube-corner coordinates -1/+1 are the first/last sample
        ti = fr.tol_points(r, CORNERS, r, GRID, ones) + 0.5e-6
        run("corners-minus1-first-sample", lambda: G.cube_to_index(f32(-ones), align_corners=True), zero, ti)
        run("corners-plus1-last-sample", lambda: G.cube_to_index(f32(ones), align_corners=True), last, ti)
        run("corners-plus1-last-sample-world", lambda: G.cube_to_world(f32(ones), align_corners=True), r.index_to_world(last), tw)
        run("first-sample-corners-minus1", lambda: G.index_to_cube(f32(zero), align_corners=True), -ones, fr.tol_points(r, GRID, r, CORNERS, zero) + 0.5e-12)
        run("last-sample-corners-plus1", lambda: G.index_to_cube(f32(last), align_corners=True), ones, fr.tol_points(r, GRID, r, CORNERS, last) + 0.5e-12)
    # cube coordinates -1/+1 are half a sample beyond the first/last sample
    ti = fr.tol_points(r, CUBE, r, GRID, ones) + 0.5e-6
    run("cube-minus1-half-sample-before", lambda: G.cube_to_index(f32(-ones), align_corners=False), zero - 0.5, ti)
    run("cube-plus1-half-sample-beyond", lambda: G.cube_to_index(f32(ones), align_corners=False), last + 0.5, ti)
    run("cube-plus1-half-sample-beyond-world", lambda: G.cube_to_world(f32(ones), align_corners=False), r.index_to_world(last + 0.5), tw)
    run("half-sample-beyond-is-cube-plus1", lambda: G.index_to_cube(f32(last + 0.5), align_corners=False), ones, fr.tol_points(r, GRID, r, CUBE, last + 0.5) + 0.5e-12)
    # argument-free transform() / inverse_transform(): cube of the grid's own flag <-> world
    cax = CORNERS if r.ac else CUBE
    if not (cax == CORNERS and n.min() < 2):
        for name, a1, a2, fn in (("transform()", cax, WORLD, lambda: G.transform()), ("inverse_transform()", WORLD, cax, lambda: G.inverse_transform())):
            xs = pair.P[(0, a1)]
            sink.trans()
            st, M = guarded(fn)
            if st == "raises":
                emit(name, "raises=" + type(M).__name__, exc_text(M))
                continue
            ym = matrix_apply(M, xs, D)
            if ym is None:
                emit(name, "matrix-shape", str(getattr(M, "shape", type(M))))
                continue
            tol = fr.tol_points(r, a1, r, a2, xs)
            err = float(np.abs(ym - r.map_points(xs, a1, a2)).max())
            if not np.isfinite(err) or err > tol:
                emit(name, "value", f"max abs error {err:.3e} > tol {tol:.3e}")
    sink.trace("anchors")
    sink.state(pair.key(), "anchors")


# ---------------------------------------------------------------------------
def check_coords_nd(sink: Sink, pair: Pair):
    """coords() (flip, channels_last, align_corners, normalize, center) and points(axes) of a lattice grid
    equal the maps applied to the integer indices."""
    G, r = pair.grids[0], pair.refs[0]
    D = r.D
    n = r.n
    case = pair.case(sub="coordsND")
    idx = fr.index_lattice(n)  # (..., X, D), x first

    def emit(name, kind, detail):
        sink.violation(f"C01/coordsND/{name}/{kind}", case, f"{name}: {detail}", size=1)

    def arrange(a, flip, channels_last):
        if flip:
            a = a[..., ::-1]
        if not channels_last:
            a = np.moveaxis(a, -1, 0)
        return np.ascontiguousarray(a)

    for ac in (None, True, False):
        ax = CORNERS if (r.ac if ac is None else ac) else CUBE
        if ax == CORNERS and n.min() < 2:
            sink.undef("coordsND: cube_corners of a single-sample axis")
            continue
        exp = r.map_points(idx.reshape(-1, D), GRID, ax).reshape(idx.shape)
        tol = C * EPS32
        for flip in (False, True):
            for cl in (True, False):
                sink.trans()
                name = f"coords[ac={ac},flip={flip},channels_last={cl}]"
                st, got = guarded(lambda: G.coords(align_corners=ac, flip=flip, channels_last=cl))
                if st == "raises":
                    emit(name, "raises=" + type(got).__name__, exc_text(got))
                    continue
                bad = compare(got, arrange(exp, flip, cl), tol)
                if bad:
                    emit(name, bad[0], bad[1])
                elif float(as_np(got).__abs__().max()) > 1.0 + tol:
                    emit(name, "outside-unit-cube", "normalised sample coordinate outside [-1, 1]")
                else:
                    sink.outcome("coords", pair.key(), name, tensor_bytes(got))
    for center in (False, True):
        exp = idx - ((n - 1) / 2 if center else 0.0)
        for cl in (True, False):
            sink.trans()
            name = f"coords[normalize=False,center={center},channels_last={cl}]"
            st, got = guarded(lambda: G.coords(normalize=False, center=center, channels_last=cl))
            if st == "raises":
                emit(name, "raises=" + type(got).__name__, exc_text(got))
                continue
            bad = compare(got, arrange(exp, False, cl), C * EPS32 * float(n.max()))
            if bad:
                emit(name, bad[0], bad[1])
    for ax in AXN:
        if ax == CORNERS and n.min() < 2:
            continue
        for as_str in (False, True):
            sink.trans()
            name = f"points[{ax}{',str' if as_str else ''}]"
            st, got = guarded(lambda: G.points(ax if as_str else real_axes(ax)))
            if st == "raises":
                emit(name, "raises=" + type(got).__name__, exc_text(got))
                continue
            exp = r.map_points(idx.reshape(-1, D), GRID, ax).reshape(idx.shape)
            tol = fr.tol_points(r, GRID, r, ax, idx.reshape(-1, D)) + fr.rounding_term(ax, -1)
            bad = compare(got, exp, tol)
            if bad:
                emit(name, bad[0], bad[1])
            else:
                sink.outcome("points", pair.key(), name, tensor_bytes(got))
    sink.trace("coordsND")
    sink.state(pair.key(), "coordsND")


# ---------------------------------------------------------------------------
def check_lattice_1d(sink: Sink, n: int):
    """Per-axis sample lattice for one n: exactly n coordinates inside [-1, 1], equal to the maps of 0..n-1."""
    from deepali.core.grid import Grid

    case = {"sub": "lattice1d", "n": n}
    i = np.arange(n, dtype=np.float64)
    ref = {True: (2 * i / (n - 1) - 1) if n > 1 else None, False: (2 * i + 1) / n - 1}
    tol = C * EPS32

    def emit(name, kind, detail):
        sink.violation(f"C01/lattice1d/{name}/{kind}", case, f"n={n} {name}: {detail}", size=1)

    for dimform, size, dim in (("dim0", (n, 3), 0), ("dim1", (2, n), 1), ("dim-1", (3, n), -1)):
        for gac in (True, False):
            st, G = guarded(lambda: Grid(size=size, align_corners=gac))
            if st == "raises":
                emit(f"Grid[{dimform}]", "raises=" + type(G).__name__, exc_text(G))
                continue
            for ac in (None, True, False) if dimform == "dim0" else (None,):
                eff = gac if ac is None else ac
                for dtype in (None, torch.float64) if dimform == "dim0" else (None,):
                    name = f"coords[{dimform},ac={'grid' if ac is None else ac},dtype={'f64' if dtype else 'default'}]"
                    sink.trans()
                    st, c = guarded(lambda: G.coords(dim=dim, align_corners=ac, dtype=dtype))
                    if st == "raises":
                        emit(name, "raises=" + type(c).__name__, exc_text(c))
                        continue
                    if not isinstance(c, torch.Tensor):
                        emit(name, "type", f"returned {type(c).__name__}")
                        continue
                    # the statement fixes the number of coordinates, not the tensor layout ((n,), (n,1), (1,n))
                    if c.numel() != n:
                        emit(name, "count", f"{c.numel()} coordinates (shape {tuple(c.shape)}), expected exactly {n}")
                        continue
                    c = c.reshape(-1)
                    v = as_np(c)
                    if not np.all(np.isfinite(v)) or np.abs(v).max() > 1.0 + tol:
                        emit(name, "outside-unit-interval", f"max |coord| = {np.abs(v).max():.9f}")
                        continue
                    if np.abs(v).max() > 1.0:
                        sink.info["coords_exceed_1_by_rounding"] = sink.info.get("coords_exceed_1_by_rounding", 0) + 1
                    if n > 1 and not np.all(np.diff(v) > 0):
                        emit(name, "not-increasing", "coordinates are not strictly increasing (not n distinct samples)")
                        continue
                    e = ref[eff]
                    if e is None:
                        sink.undef("lattice1d: cube_corners coordinate of a single sample")
                    else:
                        err = float(np.abs(v - e).max())
                        if err > tol:
                            emit(name, "value", f"max abs error {err:.3e} > tol {tol:.1e} against the affine map of 0..n-1")
                            continue
                        # equal to the implementation's own index_to_cube of the integer indices
                        if dtype is None and dimform == "dim0":
                            pts = torch.zeros((n, 2), dtype=torch.float32)
                            pts[:, 0] = torch.arange(n, dtype=torch.float32)
                            sink.trans()
                            st, m = guarded(lambda: G.index_to_cube(pts, align_corners=ac))
                            if st == "raises":
                                emit("index_to_cube", "raises=" + type(m).__name__, exc_text(m))
                            elif not isinstance(m, torch.Tensor) or tuple(m.shape) != (n, 2):
                                emit("index_to_cube", "shape", f"{getattr(m, 'shape', None)}")
                            else:
                                err = float(np.abs(as_np(m)[:, 0] - v).max())
                                if not np.isfinite(err) or err > 2 * tol * max(1.0, 1.0):
                                    emit(name, "differs-from-index_to_cube", f"max abs difference {err:.3e}")
                    sink.trace("lattice1d")
                    if n <= 64 or n % 64 == 0:
                        sink.outcome("c1d", n, name, tensor_bytes(c))
            # unnormalised forms (documented: indices, or indices centred at the grid centre)
            if dimform == "dim0":
                for center in (False, True):
                    name = f"coords[dim0,normalize=False,center={center}]"
                    sink.trans()
                    st, c = guarded(lambda: G.coords(dim=0, normalize=False, center=center))
                    if st == "raises":
                        emit(name, "raises=" + type(c).__name__, exc_text(c))
                        continue
                    e = i - ((n - 1) / 2 if center else 0.0)
                    if isinstance(c, torch.Tensor) and c.numel() == n:
                        c = c.reshape(-1)
                    bad = compare(c, e, C * EPS32 * n if center else 0.0)
                    if bad:
                        emit(name, bad[0], bad[1])
                    sink.trace("lattice1d")
    sink.state("lattice1d", n)
    sink.nontriv("lattice1d", n)


# ---------------------------------------------------------------------------
def test_image(shape) -> torch.Tensor:
    """Anisotropic integer ramps (x + 2y + 3z, 5 - 3x - y - 2z) + checkerboard, 2 channels."""
    idx = np.indices(shape).astype(np.float64)[::-1]  # x, y[, z]
    chk = idx.sum(axis=0) % 2
    w0, w1 = (1.0, 2.0, 3.0), (3.0, 1.0, 2.0)
    a = sum(w0[d] * idx[d] for d in range(len(shape)))
    b = sum(w1[d] * idx[d] for d in range(len(shape)))
    return torch.tensor(np.stack([a + 0.5 * chk, 5.0 - b + chk]), dtype=torch.float32)


def check_gridsample(sink: Sink, shape):
    """F.grid_sample(img, coords(ac), align_corners=ac) returns img (linear and nearest)."""
    import torch.nn.functional as F
    from deepali.core.grid import Grid

    shape = tuple(shape)
    D = len(shape)
    case = {"sub": "gridsample", "shape": list(shape)}
    img = test_image(shape)
    amax = float(img.abs().max())
    grad = 4.0  # bound on |difference of neighbouring samples| (slope <= 3, checker <= 1)
    for gac in (True, False):
        for ac in (None, True, False):
            eff = gac if ac is None else ac
            sink.trans()
            st, coords = guarded(lambda: Grid(shape=shape, align_corners=gac).coords(align_corners=ac))
            name = f"ac={'grid' if ac is None else ac}"
            if st == "raises":
                sink.violation(f"C01/gridsample/{name}/raises={type(coords).__name__}", case, exc_text(coords), size=1)
                continue
            if not isinstance(coords, torch.Tensor) or tuple(coords.shape) != shape + (D,):
                sink.violation(f"C01/gridsample/{name}/coords-shape", case, f"coords shape {getattr(coords, 'shape', None)} expected {shape + (D,)}", size=1)
                continue
            for mode in ("bilinear", "nearest"):
                st, out = guarded(lambda: F.grid_sample(img[None], coords[None], mode=mode, padding_mode="zeros", align_corners=eff)[0])
                if st == "raises":
                    sink.undef("gridsample: torch.grid_sample raised")
                    continue
                err = float((out.double() - img.double()).abs().max())
                # coordinate error (cube units) <= C*eps -> n/2 index units; times neighbour difference (+ zero padding at the border)
                tol = 0.0 if mode == "nearest" else C * EPS32 * (max(shape) / 2) * (D * grad + amax) + C * EPS32 * amax
                if err > tol:
                    sink.violation(
                        f"C01/gridsample/{name}/mode={mode}/not-identity", case,
                        f"shape {shape} grid flag {gac} align_corners {ac} mode {mode}: sampling at coords() changed the image, max abs diff {err:.3e} > tol {tol:.2e}", size=1,
                    )
                sink.trace("gridsample")
                sink.outcome("gs", shape, gac, ac, mode, tensor_bytes(out))
    sink.state("gridsample", shape)
    if max(shape) > 1:
        sink.nontriv("gridsample", shape)


# ---------------------------------------------------------------------------
def check_cube(sink: Sink, pair: Pair):
    """Cube of grid A (and of B): cube <-> world maps, pairs of cubes, Grid.cube().grid(size) same domain."""
    from deepali.core.cube import Cube, cube_transform_points, cube_transform_vectors
    from deepali.core.grid import Axes

    D = pair.D
    case = pair.case(sub="cube")
    have_b = pair.refs[1] is not None

    def emit(name, kind, detail):
        sink.violation(f"C01/cube/{name}/{kind}", case, f"[{pair.bname or 'single'}] {name}: {detail}", size=1)

    cubes = []
    for gi in (0, 1) if have_b else (0,):
        r = pair.refs[gi]
        if r.ac and r.n.min() < 2:
            sink.undef("cube: zero extent (align_corners=True with a single sample)")
            return
        # the cube frame of a grid is its CUBE_CORNERS (flag True) or CUBE (flag False) frame; an explicit
        # align_corners argument of Cube.from_grid selects the frame regardless of the grid's own flag
        own = CORNERS if r.ac else CUBE
        makers = [("Grid.cube", lambda g=pair.grids[gi]: g.cube(), own)]
        if gi == 0:
            makers += [("Cube.from_grid", lambda g=pair.grids[gi]: Cube.from_grid(g), own), ("Grid.domain", lambda g=pair.grids[gi]: g.domain(), own),
                       ("Cube.from_grid[align_corners=None]", lambda g=pair.grids[gi]: Cube.from_grid(g, align_corners=None), own),
                       ("Cube.from_grid[align_corners=False]", lambda g=pair.grids[gi]: Cube.from_grid(g, align_corners=False), CUBE)]
            if r.n.min() >= 2:
                makers += [("Cube.from_grid[align_corners=True]", lambda g=pair.grids[gi]: Cube.from_grid(g, True), CORNERS)]
        made = None
        for mname, mk, cax in makers:
            sink.trans()
            st, cu = guarded(mk)
            if st == "raises":
                emit(mname, "raises=" + type(cu).__name__, exc_text(cu))
                continue
            if made is None:
                made = cu
            x = pair.P[(gi, cax)]
            w = pair.P[(gi, WORLD)]
            t = lambda a: torch.tensor(a, dtype=torch.float32)  # noqa: E731
            checks = [
                ("cube_to_world", lambda: cu.cube_to_world(t(x)), r.map_points(x, cax, WORLD), fr.tol_points(r, cax, r, WORLD, x)),
                ("world_to_cube", lambda: cu.world_to_cube(t(w)), r.map_points(w, WORLD, cax), fr.tol_points(r, WORLD, r, cax, w)),
            ]
            if mname == "Grid.cube":
                V = VEC[D].astype(np.float32).astype(np.float64)
                checks += [
                    ("transform_points[cube->world]", lambda: cu.transform_points(t(x), Axes.CUBE, Axes.WORLD), r.map_points(x, cax, WORLD), fr.tol_points(r, cax, r, WORLD, x)),
                    ("transform_points[world->cube,str]", lambda: cu.transform_points(t(w), "world", "cube"), r.map_points(w, WORLD, cax), fr.tol_points(r, WORLD, r, cax, w)),
                    ("transform_points[cube->cube]", lambda: cu.transform_points(t(x), Axes.CUBE), x, C * EPS32 * np.abs(x).max()),
                    ("transform_points[world->world]", lambda: cu.transform_points(t(w), Axes.WORLD, Axes.WORLD), w, C * EPS32 * np.abs(w).max()),
                    ("transform_vectors[cube->world]", lambda: cu.transform_vectors(t(V), Axes.CUBE, Axes.WORLD), r.map_vectors(V, cax, WORLD), fr.tol_vectors(r, cax, r, WORLD, V)),
                    ("transform_vectors[world->cube]", lambda: cu.transform_vectors(t(V), Axes.WORLD, Axes.CUBE), r.map_vectors(V, WORLD, cax), fr.tol_vectors(r, WORLD, r, cax, V)),
                    ("apply_transform[(D,),f64]", lambda: cu.apply_transform(torch.tensor(x[4], dtype=torch.float64), Axes.CUBE, Axes.WORLD), r.map_points(x[4], cax, WORLD), fr.tol_points(r, cax, r, WORLD, x)),
                    ("apply_transform[(2,3,D)]", lambda: cu.apply_transform(t(w.reshape(2, 3, D)), Axes.WORLD, Axes.CUBE), r.map_points(w, WORLD, cax).reshape(2, 3, D), fr.tol_points(r, WORLD, r, cax, w)),
                ]
            for name, fn, exp, tol in checks:
                sink.trans()
                st, got = guarded(fn)
                label = f"{mname}/{name}"
                if st == "raises":
                    emit(label, "raises=" + type(got).__name__, exc_text(got))
                    continue
                bad = compare(got, np.asarray(exp, dtype=np.float64), tol)
                if bad:
                    emit(label, bad[0], bad[1])
                else:
                    sink.outcome("cube", pair.key(), gi, label, tensor_bytes(got))
            if mname == "Grid.cube":
                # matrices
                for name, fn, a1, a2 in (
                    ("transform()", lambda: cu.transform(), cax, WORLD),
                    ("transform(cube,world)", lambda: cu.transform(Axes.CUBE, Axes.WORLD), cax, WORLD),
                    ("transform(world,cube)", lambda: cu.transform(Axes.WORLD, Axes.CUBE), WORLD, cax),
                    ("inverse_transform()", lambda: cu.inverse_transform(), WORLD, cax),
                ):
                    xs = pair.P[(gi, a1)]
                    sink.trans()
                    st, M = guarded(fn)
                    if st == "raises":
                        emit(name, "raises=" + type(M).__name__, exc_text(M))
                        continue
                    ym = matrix_apply(M, xs, D)
                    if ym is None:
                        emit(name, "matrix-shape", str(getattr(M, "shape", type(M))))
                        continue
                    tol = fr.tol_points(r, a1, r, a2, xs)
                    err = float(np.abs(ym - r.map_points(xs, a1, a2)).max())
                    if not np.isfinite(err) or err > tol:
                        emit(name, "value", f"max abs error {err:.3e} > tol {tol:.3e}")
        cubes.append(made)
    # Grid.cube().grid(size) covers the same domain and its normalised frame is the same frame
    r = pair.refs[0]
    cA = cubes[0]
    if cA is not None:
        cax = CORNERS if r.ac else CUBE
        for label, size in (("same-size", [int(v) for v in r.n]), ("other-size", [_SIZE_SWAP.get(int(v), int(v) + 2) if int(v) > 1 else 3 for v in r.n])):
            for ac2 in (True, False):
                if ac2 and min(size) < 2:
                    continue
                sink.trans()
                st, g2 = guarded(lambda: cA.grid(size=tuple(size), align_corners=ac2))
                name = f"cube.grid[{label},ac={ac2}]"
                if st == "raises":
                    emit(name, "raises=" + type(g2).__name__, exc_text(g2))
                    continue
                cax2 = CORNERS if ac2 else CUBE
                x = pair.P[(0, cax)]
                sink.trans()
                st, got = guarded(lambda: g2.transform_points(torch.tensor(x, dtype=torch.float32), real_axes(cax2), real_axes(WORLD)))
                if st == "raises":
                    emit(name, "raises=" + type(got).__name__, exc_text(got))
                    continue
                bad = compare(got, r.map_points(x, cax, WORLD), 2 * fr.tol_points(r, cax, r, WORLD, x))
                if bad:
                    emit(name, "domain-" + bad[0], "normalised coordinates of the derived grid do not address the same world points: " + bad[1])
                st, same = guarded(lambda: bool(g2.cube() == cA) and bool(g2.same_domain_as(pair.grids[0])))
                if st == "raises":
                    emit(name, "raises=" + type(same).__name__, exc_text(same))
                elif not same:
                    emit(name, "not-same-domain", "Cube of the derived grid differs from the original cube")
    # pairs of cubes
    if have_b and cubes[0] is not None and cubes[1] is not None:
        for (i, j) in ((0, 1), (1, 0)):
            ri, rj = pair.refs[i], pair.refs[j]
            ci, cj = cubes[i], cubes[j]
            axi = CORNERS if ri.ac else CUBE
            axj = CORNERS if rj.ac else CUBE
            for a1, a2 in itertools.product(("cube", "world"), repeat=2):
                f1 = axi if a1 == "cube" else WORLD
                f2 = axj if a2 == "cube" else WORLD
                x = pair.P[(i, f1)]
                exp = ri.map_points(x, f1, f2, rj)
                tol = fr.tol_points(ri, f1, rj, f2, x)
                t = torch.tensor(x, dtype=torch.float32)
                V = VEC[D].astype(np.float32).astype(np.float64)
                who = f"{'AB'[i]}->{'AB'[j]}"
                for name, fn, e, tl in (
                    (f"apply_transform[{a1}->{a2},to_cube]", lambda: ci.apply_transform(t, Axes(a1), Axes(a2), to_cube=cj), exp, tol),
                    (f"cube_transform_points[{a1}->{a2},to_cube]", lambda: cube_transform_points(t, ci, Axes(a1), cj, Axes(a2)), exp, tol),
                    (f"transform_vectors[{a1}->{a2},to_cube]", lambda: ci.transform_vectors(torch.tensor(V, dtype=torch.float32), Axes(a1), Axes(a2), to_cube=cj), ri.map_vectors(V, f1, f2, rj), fr.tol_vectors(ri, f1, rj, f2, V)),
                    (f"cube_transform_vectors[{a1}->{a2},to_cube]", lambda: cube_transform_vectors(torch.tensor(V, dtype=torch.float32), ci, Axes(a1), cj, Axes(a2)), ri.map_vectors(V, f1, f2, rj), fr.tol_vectors(ri, f1, rj, f2, V)),
                ):
                    sink.trans()
                    st, got = guarded(fn)
                    if st == "raises":
                        emit(name, "raises=" + type(got).__name__, f"{who}: " + exc_text(got))
                        continue
                    bad = compare(got, e, tl)
                    if bad:
                        emit(name, bad[0], f"{who}: " + bad[1])
                    else:
                        sink.outcome("cubepair", pair.key(), i, name, tensor_bytes(got))
                    if float(np.abs(e - (x if "vectors" not in name else V)).max()) > 1e-3:
                        sink.nontriv("cubepair", pair.key(), i, a1, a2)
    sink.trace("cube")
    sink.state(pair.key(), "cube")


# ---------------------------------------------------------------------------
def edge_units(pair: Pair, first: bool):
    """(src, dst, to_grid form) of every edge form of a pair; A->A edges only for the first B of an A."""
    out = []
    for src in pair.nodes:
        for dst in pair.nodes:
            if src[0] == dst[0]:
                if src[0] == 0 and not first:
                    continue
                for tg in ("none", "self", "clone") if src[0] == 0 else ("none",):
                    out.append((src, dst, tg))
            else:
                out.append((src, dst, "other"))
    return out


def run_pairs(sink: Sink, spec: dict, tier: str, seed: int):
    menu = b_menu(spec, seed)
    deep_grid = min(spec["size"]) > 1 and any(spec == q for q in fr.lattice(len(spec["size"]), "quick", seed))
    for bi, (bname, specB) in enumerate(menu):
        pair = Pair(spec, specB, bname)
        if pair.err is not None:
            sink.violation(f"C01/construct/raises={type(pair.err).__name__}", pair.case(sub="construct"), exc_text(pair.err), size=0)
            continue
        if bname.startswith("sd-"):
            # same-domain second grid: the two-grid edges in both directions (matrices, points, vectors)
            for src in pair.nodes:
                for dst in pair.nodes:
                    if src[0] != dst[0]:
                        check_edge(sink, pair, src, dst, "other-light", wrappers=False)
            continue
        if bi == 0:
            check_anchors(sink, pair)
            check_coords_nd(sink, pair)
            if len(sink.samples) < 1:
                sink.sample({"grid_A": spec, "second_grids": [b[0] for b in menu], "frames": [node_label(n) for n in pair.nodes]})
        check_cube(sink, pair)
        for src, dst, tg in edge_units(pair, bi == 0):
            check_edge(sink, pair, src, dst, tg, wrappers=(src[0] == dst[0] == 0) or bname in WRAPPER_B)
        for dname, dec in (("default", -1), ("none", None)):
            depth = path_depth(tier, bname, dname, deep_grid)
            if depth:
                explore_paths(sink, pair, dec, depth)
    if len(sink.samples) < 2:
        sink.sample({"path_example": ["A.grid", "B.cube", "A.world", "A.grid"], "grid_A": spec, "B": menu[1][0], "judged": "closed walk returns to the probe set within the accumulated bound"})


# ---------------------------------------------------------------------------
# memory layout of user-supplied tensors
LAYOUT_FORMS = ("transposed", "sliced", "expanded")


def layout_specs(seed: int):
    """Small grid menu of the layout sub-check: D in {2,3}, oriented, both flags, one fractional-size grid."""
    d2, d3 = rg.direction_menu(2, seed), rg.direction_menu(3, seed)
    return [
        {"size": [5, 3], "spacing": [0.5, 1.25], "origin": [10.5, -3.25], "direction": d2["rot"], "ac": True, "dir": "rot"},
        {"size": [8, 5], "spacing": [1.0, 1.0], "origin": [0.0, 0.0], "direction": d2["perm"], "ac": False, "dir": "perm"},
        {"size": [4, 2, 7], "spacing": [0.5, 1.25, 2.0], "origin": [10.5, -3.25, 100.0], "direction": d3["rot"], "ac": False, "dir": "rot"},
        {"size": [9, 7, 5], "spacing": [1.0, 1.0, 1.0], "origin": [0.0, 0.0, 0.0], "direction": d3["perm"], "ac": True, "dir": "perm", "derive": "downsample"},
    ]


def check_layout(sink: Sink, spec: dict, seed: int, only: dict = None):
    """Every point / vector tensor argument of the conversion calls, and every tensor argument of the Grid
    constructor, given as transposed view, step-sliced view and stride-0 expanded batch: no exception, result
    equal to the contiguous form, argument unchanged (bits and _version)."""
    from deepali.core.cube import cube_transform_points
    from deepali.core.grid import Axes, Grid

    from ref.layout import applicable, relayout

    bname, specB = [b for b in b_menu(spec, seed) if b[0] == "rot"][0]
    pair = Pair(spec, specB, bname)
    if pair.err is not None:
        sink.violation(f"C01/construct/raises={type(pair.err).__name__}", pair.case(sub="construct"), exc_text(pair.err), size=0)
        return
    D = pair.D

    def unit(name, fn, x64, tol, what):
        """fn(tensor) judged for every layout form of the tensor x64 (float32)."""
        if only is not None and only.get("name") != name:
            return
        case = pair.case(sub="layout", name=name, seed=seed)
        for shp in ("MD", "23D"):
            unit_shape(name, fn, torch.tensor(x64, dtype=torch.float32).reshape((-1, D) if shp == "MD" else (2, 3, D)), tol, what, case, shp)
        sink.nontriv("layout", pair.key(), name)

    def unit_shape(name, fn, x, tol, what, case, shp):
        sink.trans()
        st, ref = guarded(fn, relayout(x, "contig"))
        if st == "raises" or not isinstance(ref, torch.Tensor):
            sink.undef("layout: contiguous form fails (reported by the edge / cube sub-checks)")
            return
        for form in LAYOUT_FORMS:
            if not applicable(x, form):
                continue
            xv = relayout(x, form, n=2)
            exp = ref
            if form == "expanded":
                sink.trans()
                st, exp = guarded(fn, relayout(x, "repeat", n=2))
                if st == "raises" or not isinstance(exp, torch.Tensor):
                    sink.undef("layout: batched contiguous form not accepted by this call")
                    continue
            before, ver = tensor_bytes(xv), xv._version
            sink.trans()
            st, got = guarded(fn, xv)
            sig = f"C01/layout/{name}/shape={shp}/layout={form}/"
            sink.trace("layout")
            sink.outcome("layout", pair.key(), name, shp, form, tensor_bytes(got) if st == "ok" and isinstance(got, torch.Tensor) else repr(type(got)))
            if st == "raises":
                sink.violation(sig + "raises=" + type(got).__name__, case, f"{what} with a {form} tensor: {exc_text(got)}", size=1)
                continue
            bad = compare(got, as_np(exp), tol)
            if bad:
                sink.violation(sig + bad[0], case, f"{what} with a {form} tensor differs from the contiguous form: {bad[1]}", size=1)
            elif tensor_bytes(got) != tensor_bytes(exp):
                sink.info["layout_results_not_bit_identical"] = sink.info.get("layout_results_not_bit_identical", 0) + 1
            if tensor_bytes(xv) != before or xv._version != ver:
                sink.violation(sig + "operand-mutated", case, f"{what}: the {form} argument tensor was modified (bits or _version)", size=1)

    V = VEC[D].astype(np.float32).astype(np.float64)
    # -- Grid conversions: all axes pairs, one- and two-grid forms --------------------------------
    for two in (False, True):
        for src in [n for n in pair.nodes if n[0] == 0]:
            for dst in [n for n in pair.nodes if n[0] == (1 if two else 0)]:
                tg = "other" if two else "none"
                lab = f"{src[1]}->{dst[1]}/{'two-grid' if two else 'one-grid'}"
                x = pair.P[src]
                tolp = pair.tolp(src, dst, x)
                tolv = pair.tolv(src, dst, V)
                unit(f"transform_points/{lab}", lambda t, a=src, b=dst, g=tg: call_edge(pair, a, b, t, g, "transform_points", None), x, tolp, "transform_points")
                unit(f"transform_points(default-rounding)/{lab}", lambda t, a=src, b=dst, g=tg: call_edge(pair, a, b, t, g, "transform_points", -1), x, tolp + fr.rounding_term(dst[1], -1), "transform_points")
                unit(f"transform_vectors/{lab}", lambda t, a=src, b=dst, g=tg: call_edge(pair, a, b, t, g, "transform_vectors"), V, tolv, "transform_vectors")
                unit(f"apply_transform/{lab}", lambda t, a=src, b=dst, g=tg: call_edge(pair, a, b, t, g, "apply_transform", None), x, tolp, "apply_transform")
                unit(f"apply_transform(vectors)/{lab}", lambda t, a=src, b=dst, g=tg: call_edge(pair, a, b, t, g, "apply_transform_vectors"), V, tolv, "apply_transform(vectors=True)")
                if not two:
                    G = pair.grids[0]
                    for hname, kw in helper_calls(src[1], dst[1], pair.refs[0].ac):
                        unit(f"{hname}{'(ac=default)' if not kw else ''}/{lab}", lambda t, h=hname, k=kw: getattr(G, h)(t, **k), x, tolp + fr.rounding_term(dst[1], -1), hname)
    # -- Cube conversions ---------------------------------------------------------------------------
    rA, rB = pair.refs
    st, cubes = guarded(lambda: (pair.grids[0].cube(), pair.grids[1].cube()))
    if st == "ok":
        cA, cB = cubes
        caxA = CORNERS if rA.ac else CUBE
        caxB = CORNERS if rB.ac else CUBE
        for a1, a2, to in (("cube", "world", False), ("world", "cube", False), ("cube", "cube", True), ("world", "cube", True), ("cube", "world", True)):
            f1 = (0, caxA if a1 == "cube" else WORLD)
            f2 = ((1 if to else 0), (caxB if to else caxA) if a2 == "cube" else WORLD)
            x = pair.P[f1]
            lab = f"{a1}->{a2}/{'to_cube' if to else 'one-cube'}"
            kw = {"to_cube": cB} if to else {}
            unit(f"Cube.transform_points/{lab}", lambda t, p=a1, q=a2, k=kw: cA.transform_points(t, Axes(p), Axes(q), **k), x, pair.tolp(f1, f2, x), "Cube.transform_points")
            unit(f"Cube.transform_vectors/{lab}", lambda t, p=a1, q=a2, k=kw: cA.transform_vectors(t, Axes(p), Axes(q), **k), V, pair.tolv(f1, f2, V), "Cube.transform_vectors")
            unit(f"Cube.apply_transform/{lab}", lambda t, p=a1, q=a2, k=kw: cA.apply_transform(t, Axes(p), Axes(q), **k), x, pair.tolp(f1, f2, x), "Cube.apply_transform")
        unit("Cube.cube_to_world", lambda t: cA.cube_to_world(t), pair.P[(0, caxA)], pair.tolp((0, caxA), (0, WORLD), pair.P[(0, caxA)]), "Cube.cube_to_world")
        unit("Cube.world_to_cube", lambda t: cA.world_to_cube(t), pair.P[(0, WORLD)], pair.tolp((0, WORLD), (0, caxA), pair.P[(0, WORLD)]), "Cube.world_to_cube")
        unit("cube_transform_points/world->cube/to_cube", lambda t: cube_transform_points(t, cA, Axes.WORLD, cB, Axes.CUBE), pair.P[(0, WORLD)], pair.tolp((0, WORLD), (1, caxB), pair.P[(0, WORLD)]), "cube_transform_points")
    # -- Grid constructor given non-contiguous attribute tensors ---------------------------------------
    base = {k: v for k, v in spec.items() if k != "derive"}
    r0 = rg.ref_grid(base)
    attrs = {"spacing": np.asarray(base["spacing"], float), "origin": np.asarray(base["origin"], float), "center": r0.c, "direction": r0.R, "size": np.asarray(base["size"], float)}

    def build(route, override):
        kw = dict(size=tuple(int(v) for v in base["size"]), spacing=tuple(base["spacing"]), direction=r0.R.tolist(), align_corners=base["ac"])
        kw[route] = tuple(attrs[route].tolist())
        kw.update(override)
        return Grid(**kw)

    def views(g):
        return b"|".join([tensor_bytes(g._size), tensor_bytes(g.spacing()), tensor_bytes(g.center()), tensor_bytes(g.direction()), tensor_bytes(g.origin())])

    for route in ("origin", "center"):
        st, gref = guarded(build, route, {})
        if st == "raises":
            sink.undef("layout: reference construction fails")
            continue
        vref = views(gref)
        for arg in ("spacing", "direction", "size", route):
            name = f"Grid({route}=)/arg={arg}"
            if only is not None and only.get("name") != name:
                continue
            case = pair.case(sub="layout", name=name, seed=seed)
            t = torch.tensor(attrs[arg], dtype=torch.float32)
            for form in ("transposed", "sliced"):
                if not applicable(t, form):
                    continue
                tv = relayout(t, form)
                if arg == "size":
                    tv = relayout(torch.tensor(attrs[arg]).to(torch.int64), form)
                before, ver = tensor_bytes(tv), tv._version
                sink.trans()
                st, g = guarded(build, route, {arg: tv})
                sig = f"C01/layout/{name}/layout={form}/"
                sink.trace("layout")
                if st == "raises":
                    sink.violation(sig + "raises=" + type(g).__name__, case, f"Grid({route}=) with a {form} '{arg}' tensor: {exc_text(g)}", size=1)
                    continue
                st, v = guarded(views, g)
                sink.outcome("layout-ctor", pair.key(), name, form, v if st == "ok" else repr(type(v)))
                if st == "raises":
                    sink.violation(sig + "raises=" + type(v).__name__, case, f"grid built from a {form} '{arg}' tensor: {exc_text(v)}", size=1)
                elif v != vref:
                    sink.violation(sig + "value", case, f"grid built from a {form} '{arg}' tensor differs from the grid built from the same values: origin {as_np(g.origin()).tolist()} vs {as_np(gref.origin()).tolist()}, direction {as_np(g.direction()).round(5).tolist()}", size=1)
                if tensor_bytes(tv) != before or tv._version != ver:
                    sink.violation(sig + "operand-mutated", case, f"Grid({route}=): the {form} '{arg}' argument tensor was modified (bits or _version)", size=1)
    sink.state(pair.key(), "layout")


def shards(tier: str, seed: int):
    out = []
    L = lattice(tier, seed)
    for i in range(len(layout_specs(seed))):
        out.append({"kind": "layout", "tier": tier, "seed": seed, "grid": i})
    for i in range(len(L)):
        out.append({"kind": "frames", "tier": tier, "seed": seed, "grid": i})
    for k in range(N_CHUNKS):
        out.append({"kind": "lattice1d", "tier": tier, "seed": seed, "chunk": k})
    for k in range(8):
        out.append({"kind": "gridsample", "tier": tier, "seed": seed, "chunk": k})
    return out


def gridsample_shapes():
    return [s for s in itertools.product(range(1, 10), repeat=2)] + [s for s in itertools.product(range(1, 6), repeat=3)]


def run_shard(shard) -> Acc:
    acc = Acc()
    sink = Sink(acc)
    kind = shard["kind"]
    if kind == "frames":
        spec = lattice(shard["tier"], shard["seed"])[shard["grid"]]
        run_pairs(sink, spec, shard["tier"], shard["seed"])
    elif kind == "layout":
        check_layout(sink, layout_specs(shard["seed"])[shard["grid"]], shard["seed"])
        acc.sample({"sub": "layout", "grid": layout_specs(shard["seed"])[shard["grid"]], "forms": list(LAYOUT_FORMS),
                    "arguments": "points / vectors of every Grid and Cube conversion (all axes pairs, one- and two-grid), Grid constructor tensors"})
    elif kind == "lattice1d":
        for n in range(1 + shard["chunk"], NMAX + 1, N_CHUNKS):
            check_lattice_1d(sink, n)
        if shard["chunk"] == 0:
            acc.sample({"sub": "lattice1d", "n": "every n in [1, 4096]", "forms": "coords(dim) x align_corners none/True/False x grid flag x dtype; normalize=False forms"})
    elif kind == "gridsample":
        shapes = gridsample_shapes()
        for shape in shapes[shard["chunk"] :: 8]:
            check_gridsample(sink, shape)
        if shard["chunk"] == 0:
            acc.sample({"sub": "gridsample", "shapes": "{1..9}^2 and {1..5}^3", "modes": ["bilinear", "nearest"]})
    return acc


def replay(case):
    """Plain re-execution of the unit a recorded case belongs to; returns [(sig, detail)]."""
    sink = Sink(None)
    sub = case["sub"]
    if sub == "lattice1d":
        check_lattice_1d(sink, int(case["n"]))
        return sink.out
    if sub == "gridsample":
        check_gridsample(sink, tuple(case["shape"]))
        return sink.out
    if sub == "layout":
        check_layout(sink, case["A"], int(case.get("seed", 0)), only={"name": case["name"]})
        return sink.out
    pair = Pair(case["A"], case.get("B"), case.get("bname", ""))
    if pair.err is not None:
        return [(f"C01/construct/raises={type(pair.err).__name__}", exc_text(pair.err))]
    if sub == "edge":
        check_edge(sink, pair, tuple(case["src"]), tuple(case["dst"]), case["tg"], True)
    elif sub == "path":
        nodes = [tuple(n) for n in case["nodes"]]
        explore_paths(sink, pair, case["decimals"], len(nodes) - 1, only_path=nodes)
    elif sub == "anchors":
        check_anchors(sink, pair)
    elif sub == "coordsND":
        check_coords_nd(sink, pair)
    elif sub == "cube":
        check_cube(sink, pair)
    return sink.out
