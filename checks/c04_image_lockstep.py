"""C04 - image operations move voxel data and sampling grid in lock-step.

Transition system
-----------------
state     real Image / ImageBatch / FlowFields / FlowField whose channels hold the basis ramps
          (1, x, y[, z]) of each item's OWN world coordinates (flow fields: a world-affine displacement
          field u(x) = A x + b expressed in the field's axes)  +  reference state (RefGrid per item,
          validity mask per item = voxels determined only by valid in-field-of-view source voxels)
alphabet  ~115 argument forms of the spatial methods (resize ... sample)
paths     all chains up to the tier depth, pruned by exact-bit dedup of (data, grids, masks)
invariant in EVERY reached state:
          (i)   one grid per item and grid.shape == data.shape[2:]; result type preserved
          (ii)  on every valid voxel: data == ramp evaluated with the RETURNED grid's index->world map
          (iii) index-only operations: retained voxels bit-identical, padded voxels == fill value
                (cross-checked by a second execution with NaN as the fill value)
          (iv)  the returned grid equals the reference derivation (C03 semantics, re-checked)
          (v)   every operation leaves the object it is called on bit-identical (data, grids incl. flag, axes)
receiver histories (sub-check 'receiver'): ONE live object through  op1 (twice, equal results) ->
          in-place change to g' (g' in {shifted, rotated anisotropic, other align_corners}; either grid_(g') or in-place
          SETTERS on the object's own Grid objects: center_, origin_, spacing_+direction_+center_, align_corners_) +
          in-place re-fill of the data with the ramps of g' -> op2 (judged by (i)-(v) against the reference state of g',
          then repeated: equal result)
same-target histories ('same-target'): obj.sample(T) -> in-place setter on the SAME target Grid object T (center_,
          origin_, spacing_, direction_, align_corners_), or in-place change of the object's own grids, or nothing ->
          obj.sample(T) again with the same objects (single grid and per-item list; judged against T's new geometry)
layout ('layout'): the data tensor wrapped by the initial object given as transposed view / step-sliced view / stride-0
          expanded batch (ref/layout.py); chains of <= 2 operations applied to the live results; oracle = the same chain on
          the contiguous form (differential), operand unchanged (bits and _version of the view and of its base buffer)
copy histories ('copy'): c = obj.clone() | torch.clone(obj) | copy.deepcopy(obj) | copy.copy(obj); in-place edit (grid
          setters / grid_ + data re-fill) of the original (resp. of the copy); the OTHER object must be bit-unchanged
          and every operation on it in lock-step with its own grid (copy.copy: fully independent or fully shared,
          anything else is not judged)
"""
from __future__ import annotations

import math
import traceback

import numpy as np
import torch

from mc.core import Acc, exc_text, guarded, h64
from ref import grid as rg
from ref import interp as ri
from ref.grid import RefGrid
from ref import layout as rl

# imported here (not lazily) so that the freshly forked shard processes inherit the loaded modules (~1 s per process)
import deepali.data  # noqa: F401,E402
import deepali.core.enum  # noqa: F401,E402

PROPERTY = "C04"
RULE = (
    "every chain of spatial image operations (alphabet of ~115 argument forms; depth 2 quick, depth 3 thorough with a "
    "reduced alphabet at the deeper levels) from every initial container (Image, ImageBatch N=1/2 with per-item grids, "
    "FlowFields/FlowField in world/grid/cube axes) on oriented anisotropic 2-D/3-D grids, executed on the real "
    "objects; distinct = exact bits of (data, grids, validity masks); non-trivial = the operation changed data or "
    "grid and at least 25% of the voxels of every item are still judged (valid); plus depth-3 histories on one live "
    "object: op1, in-place change to g' (grid_ or Grid setters center_/origin_/spacing_/direction_/align_corners_ on the "
    "object's own grid objects; 7 forms) with in-place data re-fill, op2 (op1 one form per mechanism in quick / reduced "
    "alphabet in thorough, op2 reduced alphabet), each op also repeated on the same receiver; sample(T) / setter on the same "
    "target object T or on the object's grids / sample(T) again (3 targets x 13 changes x single grid or per-item list); "
    "copies (clone(), torch.clone, deepcopy, copy) x edit of original or copy (4 edits) x every operation of the reduced "
    "alphabet on the other object; layout: chains of length <= 2 on the LIVE results (reduced alphabet, then one form per "
    "mechanism) starting from an object whose wrapped data tensor is a transposed view / step-sliced view / stride-0 expanded "
    "batch, on 4 configurations, compared with the same chain on the contiguous form (no exception, same type / grids, "
    "values within 64 ulp of the channel maximum per step, data tensor and its base unchanged incl. _version)"
)
EXPLANATION = "bounded explicit-state exploration of Image/ImageBatch/FlowFields operation chains carrying world-coordinate ramps"
ASSUMPTIONS = [
    "CPU float32 data; grids with 2..64 samples per axis in every state",
    "linearity: the D+1 ramps 1,x,y,z span all intensities a.x+b of the statement, so one execution per configuration decides the family",
    "values are judged only on voxels whose value is determined by in-field-of-view source voxels (reference validity mask: "
    "linear-interpolation support, pooling windows, kernel radius; Gaussian pre-smoothing assumed truncated at <= 3 sigma "
    "(documented gaussian_kernel_radius factor) and eroded by ceil(3 sigma)); samples within 1e-3 of a lattice point need "
    "both neighbours valid",
    "tolerance per channel: 64 * 2^-23 * (1+depth) * (max|expected| + K * max index-gradient), K = |origin|/min spacing + size "
    "(float32 coordinate conditioning); realistic misalignments (half a sample, swapped margins) give 0.25..18",
    "nearest-neighbour modes: the ramp cannot be reproduced; only provenance is judged (each value is an exact copy of a "
    "source voxel within one source/target voxel of the sample position); such states are not extended",
    "flow fields in non-world axes: only sample(grid) documents vector rescaling; other operations are judged only when the "
    "vector map of the new grid equals that of the old grid, otherwise counted as undefined",
    "integer sizes from ceil of a float quantity are accepted within a relative perturbation of 1e-5 (knife-edge rule)",
]
# measured: quick 53k chains / 37k outcomes / 21k non-trivial; thorough 464k chains / 328k outcomes / 150k non-trivial
MIN_NONTRIVIAL = {"quick": 10000, "thorough": 70000}
MIN_OUTCOMES = {"quick": 18000, "thorough": 160000}
MIN_SUB_TRACES = {"chain": 25000, "receiver": 9000, "same-target": 400, "copy": 3000, "layout": 2500}

EPS32 = 2.0 ** -23
CTOL = 64.0
MAXN = 64

KERNELS = {
    "k3": [0.25, 0.5, 0.25],
    "k5": [0.0625, 0.25, 0.375, 0.25, 0.0625],
}

FLOW_TABLES = [
    {2: ([[0.21, -0.13], [0.08, 0.17]], [1.25, -0.75]), 3: ([[0.21, -0.13, 0.05], [0.08, 0.17, -0.11], [-0.06, 0.09, 0.14]], [1.25, -0.75, 0.5])},
    {2: ([[-0.12, 0.19], [0.15, 0.07]], [-0.5, 1.5]), 3: ([[-0.12, 0.19, 0.04], [0.15, 0.07, 0.1], [0.03, -0.16, 0.2]], [-0.5, 1.5, 0.75])},
    {2: ([[0.17, 0.11], [-0.14, 0.23]], [0.75, 0.25]), 3: ([[0.17, 0.11, -0.08], [-0.14, 0.23, 0.06], [0.1, 0.02, -0.18]], [0.75, 0.25, -1.0])},
    {2: ([[-0.22, -0.05], [0.09, -0.16]], [-1.25, -0.5]), 3: ([[-0.22, -0.05, 0.12], [0.09, -0.16, 0.07], [-0.04, 0.13, 0.19]], [-1.25, -0.5, 1.0])},
]


# ---------------------------------------------------------------------------
# configurations
def grid_specs(tier: str, seed: int):
    d2 = rg.direction_menu(2, seed)
    d3 = rg.direction_menu(3, seed)
    specs = []

    def add(size, sp, org, dname, ac):
        dirs = d2 if len(size) == 2 else d3
        specs.append({"size": list(size), "spacing": list(sp), "origin": list(org), "direction": dirs[dname], "ac": ac, "dir": dname})

    A2, U2 = (0.5, 1.25), (1.0, 1.0)
    O2, Z2 = (10.5, -3.25), (0.0, 0.0)
    A3 = (0.5, 1.25, 2.0)
    O3, Z3 = (10.5, -3.25, 6.125), (0.0, 0.0, 0.0)
    # quick: 8 initial images (DESIGN C04 bounds)
    add((9, 6), A2, O2, "rot", True)
    add((9, 6), A2, Z2, "perm", False)
    add((16, 12), A2, O2, "rot", False)
    add((16, 12), U2, Z2, "id", True)
    add((16, 12), A2, Z2, "perm", True)
    add((9, 6), U2, O2, "rot", False)
    add((8, 6, 5), A3, O3, "rot", True)
    add((8, 6, 5), A3, Z3, "perm", False)
    if tier != "quick":
        add((9, 6), A2, O2, "rot", False)
        add((9, 6), A2, Z2, "perm", True)
        add((16, 12), A2, O2, "rot", True)
        add((16, 12), U2, Z2, "id", False)
        add((16, 12), A2, Z2, "perm", False)
        add((9, 6), U2, O2, "id", True)
        add((8, 6, 5), A3, O3, "rot", False)
        add((8, 6, 5), A3, Z3, "perm", True)
    return specs


KINDS_ALL = ["Batch2", "Image", "Batch1", "Flow2:world", "Flow2:owncube", "Flow1:grid", "FlowField:world", "Flow2:othercube"]
KINDS_QUICK = ["Batch2", "Image", "Flow2:world", "Batch2", "Flow2:owncube", "FlowField:grid", "Batch2", "Batch1"]


def configs(tier: str, seed: int):
    """quick: every initial grid with one container kind (8 configurations).
    thorough: 16 grids x {ImageBatch N=2, one further kind rotating through all kinds} (32 configurations).
    plans = alphabet levels of the operations after the first one (which always runs over the full alphabet):
      quick     (1,)     full x medium
      thorough  (1,)     full x medium                 every configuration
                (2,)     full x full                   ImageBatch N=2 on the 8 quick grids
                (0, 0)   full x reduced x reduced      ImageBatch N=2 on 4 grids (2-D 9x6, 16x12, 9x6 perm; 3-D)"""
    out = []
    for i, spec in enumerate(grid_specs(tier, seed)):
        if tier == "quick":
            out.append({"grid": spec, "kind": KINDS_QUICK[i % len(KINDS_QUICK)], "seed": seed, "plans": [[1]]})
            continue
        plans = [[2]] if i < 8 else [[1]]
        if i in (0, 1, 2, 6):
            plans = plans + [[0, 0]]
        out.append({"grid": spec, "kind": "Batch2", "seed": seed, "plans": plans})
        out.append({"grid": spec, "kind": KINDS_ALL[1 + (i % (len(KINDS_ALL) - 1))], "seed": seed, "plans": [[1]]})
    return out


def kind_parts(kind: str):
    fam, _, ax = kind.partition(":")
    N = 2 if fam.endswith("2") else 1
    if fam.startswith("FlowField"):
        cls = "FlowField"
    elif fam.startswith("Flow"):
        cls = "FlowFields"
    elif fam.startswith("Batch"):
        cls = "ImageBatch"
    else:
        cls = "Image"
    return cls, N, ax


def second_grid(r: RefGrid, seed: int) -> RefGrid:
    """Per-item grid of the second batch item: same size and spacing, other origin and orientation."""
    out = r.copy()
    D = r.D
    if D == 2:
        out.R = rg.rot2((-21.0, 33.0, 57.0, -75.0)[seed % 4])
        out.c = r.c + np.array([3.5, -2.25])
    else:
        out.R = rg.rot3(*((0.4, 0.2, -0.6), (-0.3, 0.5, 0.8), (0.7, -0.4, 0.3), (0.2, 0.9, -0.5))[seed % 4])
        out.c = r.c + np.array([3.5, -2.25, 1.75])
    return out


# ---------------------------------------------------------------------------
class St:
    """Reference state (+ the observed real data / grids needed to rebuild the real object)."""

    __slots__ = ("cls", "N", "D", "axes", "coef", "grids", "masks", "data", "real_grids", "terminal", "live")

    def __init__(self):
        self.live = None  # (list of RefGrid, list of real Grid): live target grid objects of the object histories

    def copy_meta(self):
        s = St()
        s.cls, s.N, s.D, s.axes, s.coef, s.terminal = self.cls, self.N, self.D, self.axes, self.coef, False
        s.live = self.live
        return s


def axes_name(ax: str, ac: bool) -> str:
    if ax == "owncube":
        return "cube_corners" if ac else "cube"
    if ax == "othercube":
        return "cube" if ac else "cube_corners"
    return ax


def expected_channels(st: St, g: RefGrid, idx: np.ndarray) -> np.ndarray:
    """Channel values (C, M) promised at integer indices idx (M, D) of a grid g."""
    w = g.index_to_world(idx)
    if st.coef is None:
        return np.vstack([np.ones(len(idx)), w.T])
    A, b = st.coef
    u = w @ np.asarray(A).T + np.asarray(b)
    if st.axes == "world":
        return u.T
    return g.map_vectors(u, rg.WORLD, st.axes).T


def vector_map(st: St, g: RefGrid) -> np.ndarray:
    if st.coef is None or st.axes == "world":
        return np.eye(g.D)
    A, _ = g.transform(rg.WORLD, st.axes)
    return A


def real_grid_from_ref(r: RefGrid):
    from deepali.core.grid import Grid

    return Grid(size=tuple(int(v) for v in r.n), spacing=tuple(r.s.tolist()), center=tuple(r.c.tolist()), direction=r.R.tolist(), align_corners=r.ac)


def build(cfg):
    """Fresh initial state: reference + real data/grids."""
    spec = cfg["grid"]
    cls, N, ax = kind_parts(cfg["kind"])
    st = St()
    st.cls, st.N, st.D = cls, N, len(spec["size"])
    st.terminal = False
    r0 = rg.ref_grid(spec)
    g0 = rg.real_grid(spec)
    st.grids = [r0]
    st.real_grids = [g0]
    if N == 2:
        r1 = second_grid(r0, cfg["seed"])
        st.grids.append(r1)
        st.real_grids.append(real_grid_from_ref(r1))
    if cls.startswith("Flow"):
        st.axes = axes_name(ax, spec["ac"])
        st.coef = FLOW_TABLES[cfg["seed"] % 4][st.D]
    else:
        st.axes, st.coef = None, None
    shape = tuple(int(v) for v in r0.n[::-1])
    idx = ri.grid_indices(r0.n)
    data = []
    for r in st.grids:
        e = expected_channels(st, r, idx)
        data.append(e.reshape((e.shape[0],) + shape))
    st.data = np.stack(data).astype(np.float32)
    st.masks = [np.ones(shape, dtype=bool) for _ in range(N)]
    return st


def make_real(st: St, layout: str = None, keep=None):
    """Real deepali object of the state (fresh tensor, observed grids). layout: memory layout (ref/layout.py) of the
    wrapped data tensor; 'expanded' / 'repeat' = every item carries the data of item 0 (stride-0 batch / its copy).
    keep: list receiving the tensor handed to the constructor."""
    from deepali.core.grid import Axes
    from deepali.data import FlowField, FlowFields, Image, ImageBatch

    t = torch.from_numpy(st.data.copy())
    if layout is not None:
        single = st.cls in ("Image", "FlowField")
        if layout in ("expanded", "repeat"):
            if single or st.N < 2:
                raise LayoutNotApplicable(layout)
            t = rl.relayout(t[0], layout, n=st.N)
        else:
            base = t[0] if single else t
            if not rl.applicable(base, layout):
                raise LayoutNotApplicable(layout)
            base = rl.relayout(base, layout)
            t = base.unsqueeze(0) if single else base
    if keep is not None:
        keep.append(t)
    if st.cls == "Image":
        return Image(t[0], st.real_grids[0])
    if st.cls == "ImageBatch":
        return ImageBatch(t, list(st.real_grids))
    if st.cls == "FlowFields":
        return FlowFields(t, list(st.real_grids), Axes(st.axes))
    return FlowField(t[0], st.real_grids[0], Axes(st.axes))


class LayoutNotApplicable(Exception):
    pass


def state_key(st: St) -> int:
    parts = [st.cls, st.axes or "", st.data.dtype.str, st.data.shape, st.data.tobytes()]
    for g in st.real_grids:
        parts.append(g._size.numpy().tobytes() + g._center.numpy().tobytes() + g._spacing.numpy().tobytes() + g._direction.numpy().tobytes() + (b"T" if g._align_corners else b"F"))
    for m in st.masks:
        parts.append(np.packbits(m).tobytes())
    return h64(*parts)


# ---------------------------------------------------------------------------
# alphabet
def _alphabet_levels(D: int, cls: str, N: int):
    """[(level, op)]: level 0 = reduced (deepest levels), 1 = medium (second operation of the quick tier),
    2 = argument-form variants whose parsing does not depend on the state (first operation everywhere,
    second operation in the thorough tier)."""
    ops = []
    A = lambda lvl, name, **a: ops.append((lvl, (name, a)))  # noqa: E731
    L = lambda v: list(v[:D])  # noqa: E731
    # --- resize
    A(0, "resize", size=L([5, 4, 3]))
    A(1, "resize", size=L([12, 9, 7]))
    A(2, "resize", size=L([7, 11, 4]), form="args")
    A(1, "resize", size=L([5, 4, 3]), ac=True)
    A(1, "resize", size=L([5, 4, 3]), ac=False)
    A(0, "resize", size=L([12, 9, 7]), ac=False)
    A(1, "resize", size=L([6, 5, 4]), mode="nearest")
    # --- resample
    A(0, "resample", spacing=0.75)
    A(1, "resample", spacing=L([0.7, 1.1, 1.3]))
    A(1, "resample", spacing="min")
    A(1, "resample", spacing="max")
    A(0, "resample", mul=2.0)
    A(1, "resample", mul=0.5)
    A(0, "resample", mul=1.04)
    A(1, "resample", spacing=0.6, mode="nearest")
    # --- down/upsample
    A(0, "downsample", levels=1)
    A(1, "downsample", levels=2)
    A(0, "downsample", levels=1, sigma=0)
    A(1, "downsample", levels=2, sigma=0)
    A(2, "downsample", levels=1, mode="nearest")
    A(2, "downsample", levels=1, mode="nearest", sigma=0)
    A(1, "downsample", levels=1, dims=[0])
    A(1, "downsample", levels=1, dims=[D - 1], sigma=0)
    A(1, "downsample", levels=1, min_size=7)
    A(1, "downsample", levels=1, ac=True)
    A(0, "downsample", levels=1, ac=False)
    A(1, "downsample", levels=-1)
    A(0, "upsample", levels=1)
    A(1, "upsample", levels=2)
    A(1, "upsample", levels=1, sigma=0.5)
    A(2, "upsample", levels=1, mode="nearest")
    A(1, "upsample", levels=1, dims=[1])
    A(1, "upsample", levels=1, ac=True)
    A(0, "upsample", levels=1, ac=False)
    # --- pyramid
    A(1, "pyramid", levels=2, level=0)
    A(0, "pyramid", levels=2, level=1)
    A(1, "pyramid", levels=3, level=2)
    A(1, "pyramid", levels=2, level=1, sigma=0)
    A(1, "pyramid", levels=2, level=1, ac=True)
    A(1, "pyramid", levels=2, level=1, ac=False)
    A(0, "pyramid", levels=2, level=0, spacing=0.4)
    A(1, "pyramid", levels=2, level=1, dims=[0])
    A(2, "pyramid", levels=3, level=1, start=1, end=1)
    # --- crop / pad
    A(0, "crop", margin=1)
    A(0, "pad", margin=1)
    A(2, "crop", margin=2)
    A(2, "pad", margin=2)
    A(1, "crop", margin=-1)
    A(1, "pad", margin=-1)
    A(0, "crop", margin=L([2, -1, 1]))
    A(0, "pad", margin=L([2, -1, 1]))
    A(0, "crop", num=([1, 2, 0, -1, 2, 1])[: 2 * D])
    A(0, "pad", num=([1, 2, 0, -1, 2, 1])[: 2 * D])
    A(2, "crop", num=1)
    A(1, "pad", num=[0, 3])
    A(1, "crop", num=[2, 0])
    A(1, "pad", margin=2, mode="constant", value=7.5)
    A(1, "crop", margin=-2, mode="constant", value=-3.0)
    A(1, "pad", margin=L([1, 2, 1]), mode="replicate")
    A(1, "crop", margin=L([-1, 1, -2]), mode="replicate")
    A(2, "pad", margin=1, mode="zeros", value=5.0)
    if D == 2:
        A(1, "pad", margin=2, mode="reflect")
    # --- center crop / pad
    A(1, "center_crop", size=4)
    A(0, "center_crop", size=L([3, 4, 2]))
    A(1, "center_crop", size=L([20, 3, 3]))
    A(2, "center_crop", size=L([5, 2, 3]), form="args")
    A(1, "center_pad", size=18)
    A(0, "center_pad", size=L([11, 13, 3]))
    A(1, "center_pad", size=L([2, 15, 8]), mode="constant", value=2.5)
    A(2, "center_pad", size=L([17, 7, 6]), form="args", mode="replicate")
    # --- region of interest
    A(0, "roi", start=1, size=3)
    A(1, "roi", start=L([0, 1, 2]), size=L([4, 3, 2]))
    A(1, "roi", start=L([2, 1, 0]), size=L([2, 2, 3]))
    A(1, "roi", start=-1, size=5, padding=7.5)
    A(1, "roi", start=L([3, -2, 1]), size=L([8, 6, 5]), padding="constant", value=-1.5)
    A(2, "roi", start=2, size=6, padding="replicate")
    # --- narrow
    for d in range(D):
        A(0 if d == 0 else 1, "narrow", axis=d, start=1, length=3)
    A(1, "narrow", axis=0, start=0, length=2)
    if N == 2:
        A(0, "narrow", batch=True, start=1, length=1)
        A(1, "narrow", batch=True, start=0, length=1)
        A(2, "narrow", batch=True, start=0, length=2)
    # --- pooling
    A(0, "avg_pool", k=2)
    A(1, "avg_pool", k=3)
    A(0, "avg_pool", k=2, ceil=True)
    A(1, "avg_pool", k=L([2, 1, 3]))
    A(2, "avg_pool", k=L([2, 2, 2]))
    A(2, "avg_pool", k=2, stride=1)
    A(2, "avg_pool", k=3, padding=1)
    # --- convolution
    A(0, "conv", kernel="k3")
    A(1, "conv", kernel="k5")
    A(1, "conv", kernel=L(["k3", "k5", "k3"]))
    A(1, "conv", kernel=(["k5", None, "k3"])[-D:])
    A(0, "conv", kernel="k3", padding="enum:none")
    A(0, "conv", kernel=L(["k3", "k5", "k3"]), padding="enum:none")
    A(1, "conv", kernel="k5", padding="enum:replicate")
    A(1, "conv", kernel=L(["k5", "k3", "k3"]), padding="enum:replicate")
    A(2, "conv", kernel="k3", padding="str:none")
    A(2, "conv", kernel="k5", padding="str:replicate")
    A(1, "conv", kernel="k5", padding="int:1")
    A(2, "conv", kernel="k3", padding="enum:zeros")
    A(2, "conv", kernel="k33")
    if D == 2:
        A(2, "conv", kernel="k5", padding="enum:reflect")
    # --- sample on another grid
    A(2, "sample", target="same")
    A(1, "sample", target="otherac")
    A(0, "sample", target="shift")
    A(0, "sample", target="rot")
    A(0, "sample", target="size")
    A(1, "sample", target="fine")
    A(1, "sample", target="coarse")
    A(1, "sample", target="shift", padding="border")
    A(1, "sample", target="rot", padding="const:2.5")
    A(1, "sample", target="shift", mode="nearest")
    if N == 2:
        A(0, "sample", target="shift", per_item=True)
        A(1, "sample", target="rot", per_item=True)
        A(2, "sample", target="own", per_item=True)
    return ops


def alphabet(D: int, cls: str, N: int, level: int = 2):
    return [op for lvl, op in _alphabet_levels(D, cls, N) if lvl <= level]


def medium_alphabet(D: int, cls: str, N: int):
    return alphabet(D, cls, N, 1)


def reduced_alphabet(D: int, cls: str, N: int):
    """One or a few argument forms per mechanism (deepest levels of the thorough tier)."""
    return alphabet(D, cls, N, 0)


def op_sig(op) -> str:
    name, a = op
    parts = []
    for k in sorted(a):
        v = a[k]
        if k in ("size", "start", "length", "level", "value", "end"):
            continue
        if k in ("margin", "num", "k", "spacing") and not isinstance(v, str):
            parts.append(f"{k}:{'list' if isinstance(v, list) else 'scalar'}")
        elif k == "kernel":
            parts.append("kernel:" + ("list" if isinstance(v, list) else ("2d" if v == "k33" else "1d")))
        elif k == "padding" and not isinstance(v, str):
            parts.append("padding:value")
        elif k == "axis":
            parts.append(k)
        elif k == "dims":
            parts.append("dims")
        elif k == "sigma":
            parts.append(f"sigma={'0' if v == 0 else 'set'}")
        else:
            parts.append(f"{k}={'T' if v is True else 'F' if v is False else v}")
    return name + ("(" + ",".join(parts) + ")" if parts else "")


def kind_sig(st: St) -> str:
    s = {"Image": "Image", "ImageBatch": f"Batch{st.N}", "FlowFields": f"Flow{st.N}", "FlowField": "FlowField"}[st.cls]
    if st.axes:
        s += ":" + st.axes
    return s


def bounds(tier):
    return {
        "initial_grids": len(grid_specs(tier, 0)),
        "initial_configs": len(configs(tier, 0)),
        "alphabet_D2_batch2": len(alphabet(2, "ImageBatch", 2)),
        "alphabet_D3_batch2": len(alphabet(3, "ImageBatch", 2)),
        "medium_alphabet": len(medium_alphabet(2, "ImageBatch", 2)),
        "reduced_alphabet": len(reduced_alphabet(2, "ImageBatch", 2)),
        "chains": "quick: full x medium; thorough: full x medium for all 32 configurations, full x full for ImageBatch(N=2) on 8 grids, full x reduced x reduced for ImageBatch(N=2) on 4 grids",
        "depth_total": 2 if tier == "quick" else 3,
        "layout": {"forms": LAYOUT_FORMS, "configurations": 4, "chain_length": 2},
        "object_histories": {"in_place_changes": len(MID_FORMS), "same_target_changes": len(LIVE_MIDS), "live_targets": len(LIVE_TARGETS),
                             "copy_forms": len(COPY_FORMS), "copy_edits": len(COPY_EDITS)},
        "max_size_per_axis": MAXN,
    }


# ---------------------------------------------------------------------------
# real API calls
def _kernel_tensor(name):
    if name is None:
        return None
    if name == "k33":
        k = torch.tensor(KERNELS["k3"])
        return torch.outer(k, k)
    return torch.tensor(KERNELS[name], dtype=torch.float32)


def _padding_arg(p):
    from deepali.core.enum import PaddingMode

    if p is None:
        return None
    kind, _, val = p.partition(":")
    if kind == "enum":
        return PaddingMode(val)
    if kind == "str":
        return val
    if kind == "int":
        return int(val)
    raise KeyError(p)


def target_ref(st: St, i: int, tname: str) -> RefGrid:
    """Target grid menu of sample(), derived from item i's current reference grid."""
    r = st.grids[i]
    D = r.D
    out = r.copy()
    out.z = r.n.copy()
    if tname in ("same", "own"):
        return out
    if tname == "live":
        return st.live[0][min(i, len(st.live[0]) - 1)].copy()
    if tname == "otherac":
        out.ac = not r.ac
        return out
    if tname == "shift":
        d = np.array([0.37, -0.21, 0.45][:D])
        out.c = r.c + r.R @ (r.s * d)
        return out
    if tname == "rot":
        Q = rg.rot2(20.0) if D == 2 else rg.rot3(0.25, -0.2, 0.3)
        out.R = Q @ r.R
        return out
    if tname == "size":
        out.z = np.maximum(r.n + np.array([3, -1, 2][:D]), 2)
        out.s = r.s * (r.n - 1) / (out.z - 1) if r.ac else r.s * r.n / out.z
        return out
    if tname == "fine":
        out.z = 2 * r.n - 1
        out.s = r.s / 2
        return out
    if tname == "coarse":
        out.z = np.maximum(np.ceil(r.n / 1.5), 2)
        out.s = r.s * 1.5
        out.c = r.c + r.R @ (r.s * np.array([0.25, 0.4, -0.3][:D]))
        return out
    raise KeyError(tname)


def _sample_padding(p):
    if p is None:
        return None
    if p.startswith("const:"):
        return float(p[6:])
    return p


def impl_call(obj, st: St, op, nan_fill: bool = False):
    """The real API call for op on the real object of state st."""
    name, a = op
    kw = {}
    if name == "resize":
        if "ac" in a:
            kw["align_corners"] = a["ac"]
        if "mode" in a:
            kw["mode"] = a["mode"]
        if a.get("form") == "args":
            return obj.resize(*a["size"], **kw)
        return obj.resize(tuple(a["size"]), **kw)
    if name == "resample":
        if "mode" in a:
            kw["mode"] = a["mode"]
        if "mul" in a:
            sp = tuple(float(v) for v in (st.real_grids[0].spacing() * a["mul"]).tolist())
            return obj.resample(sp, **kw)
        sp = a["spacing"]
        return obj.resample(tuple(sp) if isinstance(sp, list) else sp, **kw)
    if name in ("downsample", "upsample"):
        for k_, k2 in (("sigma", "sigma"), ("mode", "mode"), ("ac", "align_corners")):
            if k_ in a:
                kw[k2] = a[k_]
        if "dims" in a:
            kw["dims"] = tuple(a["dims"])
        if "min_size" in a:
            kw["min_size"] = a["min_size"]
        return getattr(obj, name)(a["levels"], **kw)
    if name == "pyramid":
        for k_, k2 in (("sigma", "sigma"), ("ac", "align_corners"), ("spacing", "spacing"), ("start", "start"), ("end", "end")):
            if k_ in a:
                kw[k2] = a[k_]
        if "dims" in a:
            kw["dims"] = tuple(a["dims"])
        return obj.pyramid(a["levels"], **kw)
    if name in ("crop", "pad"):
        for k_ in ("mode", "value"):
            if k_ in a:
                kw[k_] = a[k_]
        if nan_fill:
            kw["value"] = float("nan")
        if "margin" in a:
            m = a["margin"]
            return getattr(obj, name)(margin=m if isinstance(m, int) else tuple(m), **kw)
        m = a["num"]
        return getattr(obj, name)(num=m if isinstance(m, int) else tuple(m), **kw)
    if name == "center_crop":
        s = a["size"]
        if a.get("form") == "args":
            return obj.center_crop(*s)
        return obj.center_crop(s if isinstance(s, int) else tuple(s))
    if name == "center_pad":
        for k_ in ("mode", "value"):
            if k_ in a:
                kw[k_] = a[k_]
        if nan_fill:
            kw["value"] = float("nan")
        s = a["size"]
        if a.get("form") == "args":
            return obj.center_pad(*s, **kw)
        return obj.center_pad(s if isinstance(s, int) else tuple(s), **kw)
    if name == "roi":
        s0, sz = a["start"], a["size"]
        if "padding" in a:
            kw["padding"] = a["padding"]
        if "value" in a:
            kw["value"] = a["value"]
        if nan_fill:
            if isinstance(a.get("padding"), (int, float)):
                kw["padding"] = float("nan")
            else:
                kw["value"] = float("nan")
        return obj.region_of_interest(s0 if isinstance(s0, int) else tuple(s0), sz if isinstance(sz, int) else tuple(sz), **kw)
    if name == "narrow":
        lead = 1 if st.cls in ("Image", "FlowField") else 2
        if a.get("batch"):
            return obj.narrow(0, a["start"], a["length"])
        return obj.narrow(lead + (st.D - 1 - a["axis"]), a["start"], a["length"])
    if name == "avg_pool":
        k = a["k"]
        if "stride" in a:
            kw["stride"] = a["stride"]
        if "padding" in a:
            kw["padding"] = a["padding"]
        return obj.avg_pool(k if isinstance(k, int) else tuple(k), ceil_mode=bool(a.get("ceil", False)), **kw)
    if name == "conv":
        k = a["kernel"]
        kern = [_kernel_tensor(x) for x in k] if isinstance(k, list) else _kernel_tensor(k)
        if "padding" in a:
            return obj.conv(kern, padding=_padding_arg(a["padding"]))
        return obj.conv(kern)
    if name == "sample":
        if "mode" in a:
            kw["mode"] = a["mode"]
        if "padding" in a:
            kw["padding"] = _sample_padding(a["padding"])
        def tgrid(i):
            # 'its own grid' means the grid object of the image (optionally with the other flag), not a reconstruction
            if a["target"] in ("same", "own"):
                return st.real_grids[i]
            if a["target"] == "otherac":
                return st.real_grids[i].align_corners(not st.real_grids[i].align_corners())
            if a["target"] == "live":
                return st.live[1][min(i, len(st.live[1]) - 1)]  # the SAME Grid object in every call of the history
            return real_grid_from_ref(target_ref(st, i, a["target"]))

        if a.get("per_item"):
            tg = [tgrid(i) for i in range(st.N)]
        else:
            tg = tgrid(0)
        return obj.sample(tg, **kw)
    raise KeyError(name)


# ---------------------------------------------------------------------------
# reference semantics
def _taxis(D, d):
    """tensor axis of a mask (shape (..., Y, X)) belonging to grid axis d"""
    return D - 1 - d


def interp_positions(n0: int, n1: int, ac: bool) -> np.ndarray:
    j = np.arange(n1, dtype=np.float64)
    if n1 == n0:
        return j
    if ac:
        return j * (n0 - 1) / (n1 - 1) if n1 > 1 else np.zeros(1)
    return (j + 0.5) * n0 / n1 - 0.5


def support_sets(t, n, clamped: bool, band: float = 1e-3):
    """Contributing source indices of 1-D linear interpolation at positions t (see module docstring of ref.interp)."""
    sets = []
    for v in np.asarray(t, dtype=np.float64):
        if v < -1e-9 or v > n - 1 + 1e-9:
            sets.append(None)
            continue
        m = int(round(v))
        if abs(v - m) < band:
            cand = [m - 1, m, m + 1]
            inr = [i for i in cand if 0 <= i <= n - 1]
            if not clamped and len(inr) < 3:
                sets.append(None)  # boundary sample of a zero-padded sampler: rounding may blend in the padding
            else:
                sets.append(inr)
        else:
            lo = int(math.floor(v))
            sets.append([lo, lo + 1])
    return sets


def mask_interp_axes(mask, n0, n1, ac, clamped=True):
    """Validity after separable linear interpolation from size n0 to n1 (grid order arrays)."""
    D = mask.ndim
    out = mask
    for d in range(D):
        if int(n1[d]) == int(n0[d]):
            continue
        t = interp_positions(int(n0[d]), int(n1[d]), ac)
        out = ri.axis_all(out, _taxis(D, d), support_sets(t, int(n0[d]), clamped))
    return out


def mask_erode(mask, radii):
    """Validity after a separable zero-padded 'same' convolution with kernel radius radii[d] along grid axis d."""
    D = mask.ndim
    out = mask
    for d in range(D):
        r = int(radii[d])
        if r <= 0:
            continue
        n = out.shape[_taxis(D, d)]
        sets = [list(range(j - r, j + r + 1)) if (j - r >= 0 and j + r <= n - 1) else None for j in range(n)]
        out = ri.axis_all(out, _taxis(D, d), sets)
    return out


def mask_points(mask, pts, clamped: bool, band: float = 1e-3):
    """Validity of D-linear interpolation at continuous source indices pts (M, D) (grid order)."""
    import itertools

    D = mask.ndim
    n = np.array(mask.shape[::-1], dtype=np.int64)
    pts = np.asarray(pts, dtype=np.float64)
    ok = np.all((pts >= -1e-9) & (pts <= n - 1 + 1e-9), axis=1)
    m = np.rint(pts).astype(np.int64)
    near = np.abs(pts - m) < band
    base = np.where(near, m - 1, np.floor(pts).astype(np.int64))
    cnt = np.where(near, 3, 2)
    src = mask[None].astype(np.float64)
    out = ok.copy()
    for offs in itertools.product((0, 1, 2), repeat=D):
        o = np.array(offs)
        used = np.all(o < cnt, axis=1)
        idx = base + o
        inr = np.all((idx >= 0) & (idx <= n - 1), axis=1)
        val = ri._gather(src, idx, 0.0)[0] > 0.5
        if clamped:
            good = np.where(inr, val, True)
        else:
            good = inr & val
        out &= np.where(used, good, True)
    return out


def _admissible_sizes(z):
    lo = np.ceil(z * (1 - 1e-5) - 1e-9)
    hi = np.ceil(z * (1 + 1e-5) - 1e-9)
    return lo, hi


def _shift_mask(mask, off, size, D):
    """mask of an index-only window: new[j] = old[j + off] where inside, else False. off/size in grid order."""
    new = np.zeros(tuple(int(v) for v in np.asarray(size)[::-1]), dtype=bool)
    src_sl, dst_sl = [], []
    for ta in range(D):
        d = D - 1 - ta
        o, n1, n0 = int(off[d]), int(size[d]), mask.shape[ta]
        lo = max(0, -o)
        hi = min(n1, n0 - o)
        if hi <= lo:
            return new
        dst_sl.append(slice(lo, hi))
        src_sl.append(slice(lo + o, hi + o))
    new[tuple(dst_sl)] = mask[tuple(src_sl)]
    return new


def _margins(D, a, sgn):
    """(start[D], end[D]) numbers of samples REMOVED (crop semantics) for crop (sgn=1) / pad (sgn=-1)."""
    if "margin" in a:
        m = a["margin"]
        v = [m] * D if isinstance(m, int) else list(m) + [0] * (D - len(m))
        st, en = v[:D], v[:D]
    else:
        m = a["num"]
        v = [m] * (2 * D) if isinstance(m, int) else list(m) + [0] * (2 * D - len(m))
        st, en = v[0::2][:D], v[1::2][:D]
    return np.array(st, float) * sgn, np.array(en, float) * sgn


def _sizes_ok(n):
    n = np.asarray(n)
    return bool(np.all(n >= 2) and np.all(n <= MAXN))


def ref_step(st: St, op):
    """Reference semantics of op in state st. None = not enabled (outside the domain). Otherwise a dict:
    items: per result item {src, grid (expected RefGrid), mask, off (index-only offset or None)}
    exact / fill / nan (index-only judgement), nearest (provenance judgement), observed (fields taken from the result)."""
    name, a = op
    D, N = st.D, st.N
    info = {"items": [], "exact": False, "fill": None, "nan": False, "nearest": None, "flowmap": "same"}
    R = st.grids

    def each(fn):
        for i in range(N):
            it = fn(i, R[i], st.masks[i])
            if it is None:
                return False
            it.setdefault("src", i)
            it.setdefault("off", None)
            info["items"].append(it)
        return True

    if name == "resize":
        z = np.array(a["size"], float)
        ac = a.get("ac", R[0].ac)
        nearest = a.get("mode") == "nearest"

        def f(i, r, m):
            g = rg.resized(r, z, ac)
            if nearest:
                return {"grid": g, "mask": None, "pos": ("axes", r.n.copy(), g.n.copy(), ac)}
            return {"grid": g, "mask": mask_interp_axes(m, r.n, g.n, ac, True)}

        if not each(f):
            return None
        if nearest:
            info["nearest"] = "interp"
        return info
    if name == "resample":
        r0 = R[0]
        if any(np.abs(r.s - r0.s).max() > 1e-6 for r in R):
            return None  # documented: all images must have the same spacing
        if "mul" in a:
            s = r0.s * a["mul"]
        elif a["spacing"] == "min":
            s = np.full(D, r0.s.min())
        elif a["spacing"] == "max":
            s = np.full(D, r0.s.max())
        else:
            s = np.broadcast_to(np.array(a["spacing"], float), (D,)).copy()
        nearest = a.get("mode") == "nearest"
        if np.abs(s - r0.s).max() < 1e-4 * r0.s.min():
            return None  # (nearly) the same spacing: Grid.resample's allclose shortcut, knife-edge
        z = np.maximum(r0.extent / s, 1)
        lo, hi = _admissible_sizes(z)
        if not _sizes_ok(lo) or not _sizes_ok(hi):
            return None

        def f(i, r, m):
            g = r.copy()
            g.z, g.s = np.maximum(r.extent / s, 1), s.copy()
            return {"grid": g, "mask": None, "resample": True}

        each(f)
        info["observed"] = "resample"
        if nearest:
            info["nearest"] = "points"
        return info
    if name in ("downsample", "upsample"):
        lv = a["levels"] if name == "downsample" else -a["levels"]
        dims = a.get("dims") or list(range(D))
        ac = a.get("ac", R[0].ac)
        nearest = a.get("mode") == "nearest"
        ms = a.get("min_size", 0)
        sigma = a.get("sigma", 0.7355 if lv > 0 else None)

        def f(i, r, m):
            z = r.z.copy()
            for d in dims:
                z[d] = z[d] / (2.0 ** lv)
            if lv > 0:
                z = np.where(z >= ms, z, r.z)
            g = rg.resized(r, z, ac)
            if not _sizes_ok(g.n):
                return None
            if nearest:
                # with Gaussian pre/post-smoothing the values are not copies of source voxels: provenance not judged
                return {"grid": g, "mask": None, "pos": None if sigma else ("axes", r.n.copy(), g.n.copy(), ac)}
            changed = g.n != r.n
            rad = np.zeros(D, int)
            if sigma:
                L = abs(lv)
                seff = sigma * math.sqrt(sum(4.0 ** k for k in range(L)))
                rad = np.where(changed if lv > 0 else np.isin(np.arange(D), dims), int(math.ceil(3 * seff)), 0)
            if lv > 0:
                mm = mask_interp_axes(mask_erode(m, rad), r.n, g.n, ac, True)
            else:
                mm = mask_erode(mask_interp_axes(m, r.n, g.n, ac, True), rad)
            return {"grid": g, "mask": mm}

        if not each(f):
            return None
        if nearest:
            info["nearest"] = "interp"
        return info
    if name == "pyramid":
        L = a["levels"]
        dims = a.get("dims") or list(range(D))
        if any(R[0].n[d] / (2.0 ** L) < 2 for d in dims):
            return None
        if "spacing" in a and any(np.abs(r.s - R[0].s).max() > 1e-6 for r in R):
            return None
        info["observed"] = "pyramid"
        return info
    if name in ("crop", "pad"):
        sgn = 1 if name == "crop" else -1
        s0, e0 = _margins(D, a, sgn)
        mode = a.get("mode", "constant")
        if mode == "reflect" and (np.any(-s0 >= R[0].n) or np.any(-e0 >= R[0].n)):
            return None

        def f(i, r, m):
            size = r.n - s0 - e0
            if not _sizes_ok(size):
                return None
            return {"grid": rg.cropped(r, s0, size), "mask": _shift_mask(m, s0, size, D), "off": s0.copy()}

        if not each(f):
            return None
        info["exact"] = True
        if mode in ("constant", "zeros"):
            info["fill"] = 0.0 if mode == "zeros" else float(a.get("value", 0))
            info["nan"] = mode == "constant"
        return info
    if name in ("center_crop", "center_pad"):
        want = np.broadcast_to(np.array(a["size"], float), (D,))

        def f(i, r, m):
            size = np.minimum(r.n, want) if name == "center_crop" else np.maximum(r.n, want)
            if not _sizes_ok(size):
                return None
            return {"grid": None, "mask": None, "center": size.copy()}

        if not each(f):
            return None
        info["exact"] = True
        info["observed"] = "center"
        if name == "center_pad":
            mode = a.get("mode", "constant")
            if mode in ("constant", "zeros"):
                info["fill"] = 0.0 if mode == "zeros" else float(a.get("value", 0))
                info["nan"] = mode == "constant"
        return info
    if name == "roi":
        s0 = np.broadcast_to(np.array(a["start"], float), (D,)).copy()
        size = np.broadcast_to(np.array(a["size"], float), (D,)).copy()
        if not _sizes_ok(size):
            return None
        if any(np.any(s0 >= r.n) or np.any(s0 + size <= 0) for r in R):
            return None  # region does not overlap the image: nothing is promised (plain F.pad raises as well)
        pad = a.get("padding", "constant")

        def f(i, r, m):
            return {"grid": rg.cropped(r, s0, size), "mask": _shift_mask(m, s0, size, D), "off": s0.copy()}

        each(f)
        info["exact"] = True
        if isinstance(pad, (int, float)):
            info["fill"], info["nan"] = float(pad), True
        elif pad in ("constant", "zeros"):
            info["fill"] = 0.0 if pad == "zeros" else float(a.get("value", 0))
            info["nan"] = pad == "constant"
        return info
    if name == "narrow":
        if a.get("batch"):
            s0, ln = a["start"], a["length"]
            if s0 + ln > N:
                return None
            for i in range(s0, s0 + ln):
                info["items"].append({"src": i, "grid": R[i].copy(), "mask": st.masks[i].copy(), "off": np.zeros(D)})
            info["exact"] = True
            return info
        d, s0, ln = a["axis"], a["start"], a["length"]
        if s0 + ln > R[0].n[d] or ln < 2:
            return None

        def f(i, r, m):
            size = r.n.copy()
            size[d] = ln
            off = np.zeros(D)
            off[d] = s0
            return {"grid": rg.cropped(r, off, size), "mask": _shift_mask(m, off, size, D), "off": off}

        each(f)
        info["exact"] = True
        return info
    if name == "avg_pool":
        k = a["k"]
        ceil = bool(a.get("ceil", False))
        if isinstance(k, list) and len(set(k)) > 1:
            info["observed"] = "pool-order"  # order convention of a kernel tuple is not documented: either is accepted
        kk = np.broadcast_to(np.array(k, float), (D,))

        def f(i, r, m):
            g = rg.pooled(r, kk, ceil)
            if not _sizes_ok(g.n):
                return None
            if info.get("observed") == "pool-order" and not _sizes_ok(rg.pooled(r, kk[::-1], ceil).n):
                return None  # either order of the tuple must stay inside the domain (>= 2 samples per axis)
            mm = m
            for d in range(D):
                kd, n0 = int(kk[d]), int(r.n[d])
                sets = [list(range(j * kd, j * kd + kd)) if j * kd + kd <= n0 else None for j in range(int(g.n[d]))]
                mm = ri.axis_all(mm, _taxis(D, d), sets)
            return {"grid": g, "mask": mm}

        if not each(f):
            return None
        return info
    if name == "conv":
        k = a["kernel"]
        pmode = a.get("padding")
        if k == "k33":
            radt = [0] * (D - 2) + [1, 1]  # tensor order: last two tensor dims
            cands = [radt]
        elif isinstance(k, list):
            rt = [0 if x is None else (len(KERNELS[x]) - 1) // 2 for x in k]
            rt = [0] * (D - len(rt)) + rt  # a short sequence applies to the last tensor dims
            cands = [rt, rt[::-1]] if rt != rt[::-1] else [rt]  # tensor order (code/doc example) or grid order (doc text)
        else:
            r1 = (len(KERNELS[k]) - 1) // 2
            cands = [[r1] * D]
        pk, _, pv = (pmode or "enum:zeros").partition(":")
        pint = int(pv) if pk == "int" else None
        shrink_none = pv == "none"
        options = []
        for rt in cands:
            rgd = np.array(rt[::-1], float)  # grid order radii
            if shrink_none:
                sh = rgd.copy()
            elif pint is not None:
                sh = np.where(rgd > 0, rgd - pint, 0.0)
            else:
                sh = np.zeros(D)
            options.append((rgd, sh))
        if len(options) == 2 and np.array_equal(options[0][1], options[1][1]):
            # conventions not distinguishable by shape: erode by the larger radius on every axis
            rmax = np.maximum(options[0][0], options[1][0])
            options = [(rmax, options[0][1])]
        info["conv_options"] = options
        info["observed"] = "conv"
        for rgd, sh in options:
            if not _sizes_ok(R[0].n - 2 * sh):
                return None
            if pv == "reflect" and np.any(rgd >= R[0].n):
                return None  # reflection padding needs a margin smaller than the image (torch raises otherwise)
        return info
    if name == "sample":
        tn = a["target"]
        per = bool(a.get("per_item"))
        nearest = a.get("mode") == "nearest"
        items = []
        allsame = True
        for i in range(N):
            t = target_ref(st, i if per else 0, tn)
            if not _sizes_ok(t.n):
                return None
            r = R[i]
            same = (
                np.array_equal(t.n, r.n)
                and np.abs(t.s - r.s).max() <= 1e-9 * r.s.max()
                and np.abs(t.c - r.c).max() <= 1e-9 * r.scale()
                and np.abs(t.R - r.R).max() <= 1e-9
            )  # same geometry (the flag is ignored by Grid.__eq__): documented to return self
            allsame &= same
            items.append((t, same))
        for i, (t, same) in enumerate(items):
            r, m = R[i], st.masks[i]
            if allsame:
                # documented: 'When these grids match the grids of this image batch, self is returned'
                g = r.copy()
                info["items"].append({"src": i, "grid": g, "mask": m.copy(), "off": np.zeros(D), "anyac": True})
                continue
            pts = r.world_to_index(t.index_to_world(ri.grid_indices(t.n)))
            shape = tuple(int(v) for v in t.n[::-1])
            if nearest:
                info["items"].append({"src": i, "grid": t, "mask": None, "off": None, "pos": ("points", pts)})
            else:
                info["items"].append({"src": i, "grid": t, "mask": mask_points(m, pts, False).reshape(shape), "off": None})
        if allsame:
            info["exact"] = True
        elif nearest:
            info["nearest"] = "points"
        info["flowmap"] = "sample"
        return info
    raise KeyError(name)


# ---------------------------------------------------------------------------
# observation and judgement
def observe(res, st: St):
    """(class name, data (N,C,*shape) float32 numpy, list of real grids, axes name or None) of a result object."""
    from deepali.data import FlowField, FlowFields, Image, ImageBatch

    cname = type(res).__name__
    if isinstance(res, ImageBatch):
        data = res.tensor().detach().numpy()
        grids = list(res.grids())
    elif isinstance(res, Image):
        data = res.tensor().detach().numpy()[None]
        grids = [res.grid()]
    else:
        return cname, None, None, None
    axes = res.axes().value if isinstance(res, (FlowFields, FlowField)) else None
    return cname, np.ascontiguousarray(data), grids, axes


def grid_problems(obs: RefGrid, exp: RefGrid, depth: int, anyac: bool = False):
    out = []
    if not np.array_equal(obs.n, exp.n):
        return [("grid-size", f"grid size {obs.n.tolist()} expected {exp.n.tolist()}")]
    ts = CTOL * EPS32 * (1 + depth)
    if np.any(np.abs(obs.s - exp.s) > ts * exp.s):
        out.append(("grid-spacing", f"spacing {obs.s.tolist()} expected {exp.s.tolist()}"))
    if np.any(np.abs(obs.R - exp.R) > 8 * EPS32):
        out.append(("grid-direction", f"direction {obs.R.round(5).tolist()} expected {exp.R.round(5).tolist()}"))
    if obs.ac != exp.ac and not anyac:
        out.append(("grid-align_corners", f"flag {obs.ac} expected {exp.ac}"))
    tp = CTOL * EPS32 * exp.scale() * (1 + depth)
    if np.any(np.abs(obs.c - exp.c) > tp):
        out.append(("grid-center", f"center {obs.c.tolist()} expected {exp.c.tolist()} tol {tp:.2e}"))
    return out


def cond_K(g: RefGrid) -> float:
    return float(np.abs(g.origin).max() / g.s.min() + g.n.max())


def value_problems(st: St, data_i: np.ndarray, obs: RefGrid, mask: np.ndarray, depth: int, K: float):
    """Invariant (ii): ramp values on the valid voxels, evaluated with the returned grid's own map."""
    idx = ri.grid_indices(obs.n)
    E = expected_channels(st, obs, idx)  # (C, M)
    C = E.shape[0]
    if data_i.shape[0] != C:
        return [("channels", f"{data_i.shape[0]} channels, expected {C}")], 0.0
    shape = data_i.shape[1:]
    V = data_i.reshape(C, -1).astype(np.float64)
    mv = mask.reshape(-1)
    if not mv.any():
        return [], 0.0
    Eg = E.reshape((C,) + shape)
    grad = np.zeros(C)
    for ax in range(1, Eg.ndim):
        if Eg.shape[ax] > 1:
            grad = np.maximum(grad, np.abs(np.diff(Eg, axis=ax)).reshape(C, -1).max(axis=1))
    tol = CTOL * EPS32 * (1 + depth) * (np.abs(E).max(axis=1) + K * grad)
    err = np.abs(V - E)[:, mv]
    bad = ~(err <= tol[:, None])  # NaN counts as bad
    if bad.any():
        c = int(np.argmax(bad.any(axis=1)))
        e = err[c]
        worst = float(np.nanmax(e)) if not np.all(np.isnan(e)) else float("nan")
        nb = int(bad.any(axis=0).sum())
        return [("ramp", f"channel {c}: |data - ramp(returned grid)| max {worst:.4g} > tol {tol[c]:.2e} on {nb}/{int(mv.sum())} valid voxels")], worst
    return [], float(err.max()) if err.size else 0.0


def exact_problems(parent: np.ndarray, child: np.ndarray, off, fill, D: int):
    """Invariant (iii): child[j] bit-identical to parent[j+off] where inside; == fill elsewhere (if fill given)."""
    out = []
    C = parent.shape[0]
    if child.shape[0] != C:
        return [("channels", f"{child.shape[0]} channels, expected {C}")], None
    src_sl, dst_sl = [slice(None)], [slice(None)]
    empty = False
    for ta in range(D):
        d = D - 1 - ta
        o, n1, n0 = int(off[d]), child.shape[1 + ta], parent.shape[1 + ta]
        lo, hi = max(0, -o), min(n1, n0 - o)
        if hi <= lo:
            empty = True
            break
        dst_sl.append(slice(lo, hi))
        src_sl.append(slice(lo + o, hi + o))
    inside = np.zeros(child.shape, dtype=bool)
    if not empty:
        inside[tuple(dst_sl)] = True
        a = child[tuple(dst_sl)]
        b = parent[tuple(src_sl)]
        if a.tobytes() != b.tobytes():
            nb = int((a != b).sum())
            out.append(("retained-values", f"{nb} retained voxel values differ from the original values (max {np.abs(a.astype(np.float64) - b).max():.4g})"))
    if fill is not None and (~inside).any():
        v = child[~inside]
        if not np.all(v == np.float32(fill)):
            out.append(("fill-values", f"padded voxels are not all {fill} (e.g. {v[v != np.float32(fill)][:3].tolist()})"))
    return out, inside


def nearest_problems(parent: np.ndarray, child: np.ndarray, pos, D: int, M=None):
    """Provenance judgement for nearest-neighbour modes: every output value vector is an exact copy of a source
    voxel within max(1, source/target voxel ratio) (+1e-3) of the sample position, per axis. pos describes the
    continuous source index of every output voxel."""
    C = parent.shape[0]
    if child.shape[0] != C:
        return [("channels", f"{child.shape[0]} channels, expected {C}")]
    n0 = np.array(parent.shape[1:][::-1])
    n1 = np.array(child.shape[1:][::-1])
    idx1 = ri.grid_indices(n1)
    if pos[0] == "axes":
        _, a0, a1, ac = pos
        pts = np.stack([interp_positions(int(a0[d]), int(a1[d]), ac)[idx1[:, d].astype(int)] for d in range(D)], axis=1)
        reach = np.maximum(1.0, a0 / a1)
    else:
        pts = pos[1]
        reach = np.full(D, 1.0)
    inside = np.all((pts >= 0) & (pts <= n0 - 1), axis=1)
    V = child.reshape(C, -1)
    P = parent.reshape(C, -1)
    atol = None
    if M is not None:
        # flow vectors re-expressed for the new grid (documented for FlowFields.sample): copies up to rounding
        P = (np.asarray(M) @ P.astype(np.float64))
        V = V.astype(np.float64)
        atol = CTOL * EPS32 * max(float(np.abs(P).max()), 1e-30)
    strides = np.cumprod(np.concatenate([[1], n0[:-1]]))  # flat index = sum idx[d] * stride[d] (x fastest)
    bad = 0
    worst = 0.0
    first = None
    import itertools

    lo = np.floor(pts - reach - 1e-3).astype(np.int64)
    span = int(np.ceil(2 * reach.max() + 2))
    found = np.zeros(len(pts), dtype=bool)
    for offs in itertools.product(range(span + 1), repeat=D):
        cand = lo + np.array(offs)
        okc = np.all((cand >= 0) & (cand <= n0 - 1), axis=1) & np.all(np.abs(cand - pts) <= reach + 1e-3, axis=1)
        flat = (np.clip(cand, 0, n0 - 1) * strides).sum(axis=1)
        same = np.all(P[:, flat] == V, axis=0) if atol is None else np.all(np.abs(P[:, flat] - V) <= atol, axis=0)
        found |= okc & same
    judged = inside
    miss = judged & ~found
    if miss.any():
        j = int(np.argmax(miss))
        return [("nearest-provenance", f"{int(miss.sum())}/{int(judged.sum())} in-FOV output voxels are not a copy of a source voxel within {reach.tolist()} voxels of the sample position (e.g. output {idx1[j].astype(int).tolist()} at source {pts[j].round(3).tolist()})")]
    return []


def raise_tag(e: BaseException) -> str:
    tb = traceback.extract_tb(e.__traceback__)
    fn = ""
    for fr in reversed(tb):
        if "/deepali/" in fr.filename:
            fn = fr.name
            break
    return f"raises={type(e).__name__}" + (f"@{fn}" if fn else "")


UNDEF_EXC = (NotImplementedError,)


def is_documented_unsupported(e: BaseException) -> bool:
    if isinstance(e, UNDEF_EXC):
        return True
    s = str(e)
    if isinstance(e, ValueError) and "does not support padding mode" in s:
        return True
    return False


class StepResult:
    __slots__ = ("problems", "new", "undef", "maxerr")

    def __init__(self):
        self.problems, self.new, self.undef, self.maxerr = [], None, None, 0.0


def receiver_fingerprint(obj) -> bytes:
    """Exact bits of everything a receiver carries: class, data, every grid (incl. flag), flow axes."""
    from deepali.data import ImageBatch

    grids = list(obj.grids()) if isinstance(obj, ImageBatch) else [obj.grid()]
    parts = [type(obj).__name__.encode(), str(tuple(obj.shape)).encode(), obj.tensor().detach().contiguous().numpy().tobytes()]
    for g in grids:
        parts.append(g._size.numpy().tobytes() + g._center.numpy().tobytes() + g._spacing.numpy().tobytes() + g._direction.numpy().tobytes() + (b"T" if g._align_corners else b"F"))
    ax = getattr(obj, "_axes", None)
    parts.append(repr(ax.value if ax is not None else None).encode())
    return b"|".join(parts)


def step(st: St, op, depth: int, obj=None) -> StepResult:
    """Execute op on the real object of st (a fresh one, or the given live receiver) and judge it.
    problems: list of (kind, detail)."""
    out = StepResult()
    info = ref_step(st, op)
    if info is None:
        out.undef = "not-enabled:" + op[0]
        return out
    name, a = op
    if obj is None:
        obj = make_real(st)
    fp0 = receiver_fingerprint(obj)
    status, res = guarded(impl_call, obj, st, op)
    if receiver_fingerprint(obj) != fp0:
        out.problems.append(("receiver-mutated", "the operation changed the data bits / grids / flag of the object it was called on"))
        return out
    if status == "raises":
        if is_documented_unsupported(res):
            out.undef = "documented-unsupported:" + type(res).__name__ + ":" + op[0]
            return out
        out.problems.append((raise_tag(res), exc_text(res)))
        return out
    levels = None
    if name == "pyramid":
        if not isinstance(res, dict):
            out.problems.append(("type", f"pyramid returned {type(res).__name__}"))
            return out
        L = a["levels"]
        s_, e_ = a.get("start", 0), a.get("end", -1)
        e_ = L + e_ if e_ < 0 else e_
        if sorted(res.keys()) != list(range(s_, e_ + 1)):
            out.problems.append(("pyramid-keys", f"keys {sorted(res.keys())} expected {list(range(s_, e_ + 1))}"))
            return out
        levels = res
        return judge_pyramid(st, op, info, levels, depth, out)
    return judge(st, op, info, res, depth, out)


def _check_container(st, res, info, out, nexp):
    cname, data, grids, axes = observe(res, st)
    if cname != st.cls:
        out.problems.append(("type", f"returned {cname}, expected {st.cls}"))
        return None
    if st.axes is not None and axes != st.axes:
        out.problems.append(("flow-axes", f"axes {axes} expected {st.axes}"))
        return None
    if data.shape[0] != nexp:
        out.problems.append(("batch-size", f"{data.shape[0]} items, expected {nexp}"))
        return None
    if len(grids) != data.shape[0]:
        out.problems.append(("grids-per-item", f"{len(grids)} grid(s) for {data.shape[0]} item(s)"))
        return None
    for i, g in enumerate(grids):
        if tuple(g.shape) != tuple(data.shape[2:]):
            out.problems.append(("grid-shape", f"item {i}: grid.shape {tuple(g.shape)} != data.shape[2:] {tuple(data.shape[2:])}"))
            return None
    if data.dtype != np.float32:
        out.problems.append(("dtype", f"data dtype {data.dtype}"))
        return None
    return data, grids


def judge(st: St, op, info, res, depth: int, out: StepResult) -> StepResult:
    name, a = op
    D = st.D
    items = info["items"] if info["items"] else None
    obs_kind = info.get("observed")
    nexp = len(items) if items else st.N
    chk = _check_container(st, res, info, out, nexp)
    if chk is None:
        return out
    data, grids = chk
    obs = [RefGrid.from_real(g) for g in grids]
    # ---- expected grids that depend on the observed result (knife-edge sizes, centring, conventions)
    if obs_kind == "resample":
        for i, it in enumerate(items):
            g = it["grid"]
            lo, hi = _admissible_sizes(g.z)
            if np.all((obs[i].n >= lo) & (obs[i].n <= hi)):
                g.z = obs[i].n.copy()
            r, m = st.grids[it["src"]], st.masks[it["src"]]
            if info["nearest"]:
                t = g.copy()
                it["pos"] = ("points", r.world_to_index(t.index_to_world(ri.grid_indices(t.n))))
            else:
                mm = m
                for d in range(D):
                    j = np.arange(int(g.n[d]), dtype=np.float64)
                    pos = (j - (g.n[d] - 1) / 2) * g.s[d] / r.s[d] + (r.n[d] - 1) / 2
                    mm = ri.axis_all(mm, _taxis(D, d), support_sets(pos, int(r.n[d]), False))
                it["mask"] = mm
    elif obs_kind == "center":
        for i, it in enumerate(items):
            r, m = st.grids[it["src"]], st.masks[it["src"]]
            size = it["center"]
            if not np.array_equal(obs[i].n, size):
                out.problems.append(("grid-size", f"item {i}: grid size {obs[i].n.tolist()} expected {size.tolist()}"))
                return out
            off = r.world_to_index(obs[i].origin)
            ro = np.round(off)
            if np.any(np.abs(off - ro) > 1e-3):
                out.problems.append(("grid-off-lattice", f"item {i}: new origin at old index {off.tolist()}"))
                return out
            ideal = (r.n - size) / 2
            if np.any(np.abs(ro - ideal) > 0.5 + 1e-9):
                out.problems.append(("grid-not-centered", f"item {i}: offset {ro.tolist()} ideal {ideal.tolist()}"))
                return out
            it["grid"] = rg.cropped(r, ro, size)
            it["mask"] = _shift_mask(m, ro, size, D)
            it["off"] = ro
    elif obs_kind == "conv":
        shape_g = np.array(data.shape[2:][::-1], float)
        chosen = None
        for rgd, sh in info["conv_options"]:
            if np.array_equal(st.grids[0].n - 2 * sh, shape_g):
                chosen = (rgd, sh)
                break
        if chosen is None:
            out.problems.append(("data-shape", f"data size {shape_g.tolist()} matches no admissible output size of the convolution of size {st.grids[0].n.tolist()}"))
            return out
        rgd, sh = chosen
        items = []
        for i in range(st.N):
            r, m = st.grids[i], st.masks[i]
            size = r.n - 2 * sh
            # output j <-> input centre j + sh ; needs inputs [c - r, c + r] valid (zero / replicate / reflect padding
            # all alter the boundary values, 'none' has no boundary)
            mm = m
            for d in range(D):
                rr, s_ = int(rgd[d]), int(sh[d])
                n0 = int(r.n[d])
                sets = []
                for j in range(int(size[d])):
                    c = j + s_
                    sets.append(list(range(c - rr, c + rr + 1)) if (c - rr >= 0 and c + rr <= n0 - 1) else None)
                if rr > 0 or s_ != 0:
                    mm = ri.axis_all(mm, _taxis(D, d), sets)
            items.append({"src": i, "grid": rg.cropped(r, sh, size), "mask": mm, "off": None})
    elif obs_kind == "pool-order":
        k = a["k"]
        ceil = bool(a.get("ceil", False))
        shape_g = np.array(data.shape[2:][::-1], float)
        chosen = None
        for kk in (np.array(k, float), np.array(k[::-1], float)):
            if np.array_equal(rg.pooled(st.grids[0], kk, ceil).n, shape_g):
                chosen = kk
                break
        if chosen is None:
            out.problems.append(("data-shape", f"data size {shape_g.tolist()} matches neither order of kernel {k}"))
            return out
        items = []
        for i in range(st.N):
            r, m = st.grids[i], st.masks[i]
            g = rg.pooled(r, chosen, ceil)
            mm = m
            for d in range(D):
                kd, n0 = int(chosen[d]), int(r.n[d])
                sets = [list(range(j * kd, j * kd + kd)) if j * kd + kd <= n0 else None for j in range(int(g.n[d]))]
                mm = ri.axis_all(mm, _taxis(D, d), sets)
            items.append({"src": i, "grid": g, "mask": mm, "off": None})
    # ---- (iv) returned grid vs reference derivation
    for i, it in enumerate(items):
        for kind, detail in grid_problems(obs[i], it["grid"], depth, anyac=it.get("anyac", False)):
            out.problems.append((kind, f"item {i}: {detail}"))
    if out.problems:
        return out
    # ---- flow fields in non-world axes: is the operation's effect on vectors specified?
    new = st.copy_meta()
    new.N = len(items)
    if st.coef is not None and st.axes != "world" and info["flowmap"] != "sample":
        for i, it in enumerate(items):
            T0 = vector_map(st, st.grids[it["src"]])
            T1 = vector_map(st, it["grid"])
            if np.abs(T0 - T1).max() > 1e-9 * np.abs(T0).max():
                out.undef = "flow-vector-rescaling-unspecified:" + name
                return out
    # ---- values
    K = max([cond_K(g) for g in st.grids] + [cond_K(o) for o in obs])
    if info["nearest"]:
        for i, it in enumerate(items):
            M = None
            if st.coef is not None and st.axes != "world" and info["flowmap"] == "sample":
                M = vector_map(st, it["grid"]) @ np.linalg.inv(vector_map(st, st.grids[it["src"]]))
            if it["pos"] is None:
                continue
            for kind, detail in nearest_problems(st.data[it["src"]], data[i], it["pos"], D, M):
                out.problems.append((kind, f"item {i}: {detail}"))
        if not out.problems:
            if any(it["pos"] is None for it in items):
                out.undef = "nearest+smoothing:values-not-judged"
            else:
                out.undef = "nearest:ramp-not-reproducible(provenance judged)"
        new.terminal = True
        new.grids = [it["grid"] for it in items]
        new.masks = [np.zeros(data.shape[2:], dtype=bool) for _ in items]
        new.data, new.real_grids = data.copy(), grids
        out.new = new
        return out
    for i, it in enumerate(items):
        if info["exact"]:
            probs, inside = exact_problems(st.data[it["src"]], data[i], it["off"], info["fill"], D)
            for kind, detail in probs:
                out.problems.append((kind, f"item {i}: {detail}"))
        probs, me = value_problems(st, data[i], obs[i], it["mask"], depth, K)
        out.maxerr = max(out.maxerr, me if me == me else 0.0)
        for kind, detail in probs:
            if kind == "ramp" and not info["exact"] and data[i].shape == st.data[it["src"]].shape and data[i].tobytes() == st.data[it["src"]].tobytes():
                kind, detail = "ramp-data-unchanged", detail + " (data returned unchanged, grid changed)"
            out.problems.append((kind, f"item {i}: {detail}"))
    if out.problems:
        return out
    # ---- NaN cross-check of the padded region (second execution with NaN as the constant)
    if info["nan"]:
        status, res2 = guarded(impl_call, make_real(st), st, op, True)
        if status == "raises":
            out.problems.append((raise_tag(res2) + "/nan-fill", exc_text(res2)))
            return out
        _, d2, _, _ = observe(res2, st)
        if d2 is None or d2.shape != data.shape:
            out.problems.append(("nan-fill-shape", "second execution with NaN fill returned another shape"))
            return out
        for i, it in enumerate(items):
            _, inside = exact_problems(st.data[it["src"]], data[i], it["off"], None, D)
            nanmap = np.isnan(d2[i])
            if not np.array_equal(nanmap, ~inside):
                out.problems.append(("fill-region", f"item {i}: NaN fill appears on {int(nanmap.sum())} values, reference padded region has {int((~inside).sum())}"))
        if out.problems:
            return out
    new.grids = []
    for i, it in enumerate(items):
        g = it["grid"].copy()
        # The fractional internal Grid size is promised only for the resize-type operations (down/upsample round trip).
        # After every other operation (resample, crop-type, pooling, sample ...) the implementation's internal size is
        # adopted whenever it denotes the same number of samples, as C03's reference does; for resize-type operations it
        # is adopted only if it equals the promised value up to float32 rounding (keeps later ceil() decisions in step).
        oz = obs[i].z
        if np.array_equal(np.ceil(oz - 1e-9), g.n):
            if name in ("resize", "downsample", "upsample"):
                if np.all(np.abs(oz - g.z) <= 1e-5 * np.maximum(g.z, 1.0)):
                    g.z = oz.copy()
            else:
                g.z = oz.copy()
        g.ac = obs[i].ac
        new.grids.append(g)
    new.masks = [it["mask"] for it in items]
    new.data, new.real_grids = data.copy(), grids
    out.new = new
    return out


def judge_pyramid(st: St, op, info, levels, depth: int, out: StepResult) -> StepResult:
    """Every returned level is judged; the chain continues from level a['level']."""
    name, a = op
    D, N = st.D, st.N
    L = a["levels"]
    dims = a.get("dims") or list(range(D))
    ac = a.get("ac", st.grids[0].ac)
    sigma = a.get("sigma", 0.7355)
    rad1 = int(math.ceil(3 * sigma)) if sigma else 0
    keys = sorted(levels.keys())
    obs_all = {}
    for k in keys:
        chk = _check_container(st, levels[k], info, out, N)
        if chk is None:
            out.problems = [(p[0], f"level {k}: {p[1]}") for p in out.problems]
            return out
        obs_all[k] = chk
    # level-0 geometry: the size is chosen by Grid.pyramid (C03: any size, corners/extent kept); taken from the
    # finest returned level by undoing the ceil-halving is not possible in general, so level sizes are observed and
    # their consistency (each level = ceil-halving of the previous along dims) is checked where both are returned.
    prev_n = None
    cur_masks = None
    cur_grids = None
    chosen = None
    K0 = max(cond_K(g) for g in st.grids)
    for k in keys:
        data, grids = obs_all[k]
        obs = [RefGrid.from_real(g) for g in grids]
        exp_grids, masks = [], []
        for i in range(N):
            r, m = st.grids[i], st.masks[i]
            if "spacing" in a:
                base = r.copy()
                s = np.full(D, float(a["spacing"]))
                base.z, base.s = np.maximum(r.extent / s, 1), s
                base.ac = ac
                lo, hi = _admissible_sizes(base.z)
                base.z = np.clip(np.ceil(base.z - 1e-9), lo, hi)
            else:
                base = r.copy()
                base.ac = ac
            g = rg.resized(base, obs[i].n, ac)
            g.ac = ac
            exp_grids.append(g)
        for i in range(N):
            for kind, detail in grid_problems(obs[i], exp_grids[i], depth):
                out.problems.append((kind, f"level {k} item {i}: {detail}"))
        if prev_n is not None:
            for d in range(D):
                want = math.ceil(prev_n[d] / 2) if d in dims else prev_n[d]
                if obs[0].n[d] != want:
                    out.problems.append(("level-size", f"level {k} axis {d}: size {obs[0].n[d]} after {prev_n[d]}, expected {want}"))
        if out.problems:
            return out
        if st.coef is not None and st.axes != "world":
            for i in range(N):
                T0, T1 = vector_map(st, st.grids[i]), vector_map(st, exp_grids[i])
                if np.abs(T0 - T1).max() > 1e-9 * np.abs(T0).max():
                    out.undef = "flow-vector-rescaling-unspecified:pyramid"
                    return out
        # masks: level k data = (resize to level 0) then k x (Gaussian, linear halving); computed from the item's
        # original mask through the reference geometry of every level
        for i in range(N):
            r, m = st.grids[i], st.masks[i]
            if cur_masks is None or k == keys[0]:
                # level keys[0]: resize to level-0 size n0 then keys[0] halvings; n0 is not observed when start > 0
                n_first = obs[i].n
                if k == 0:
                    if "spacing" in a:
                        pts = r.world_to_index(exp_grids[i].index_to_world(ri.grid_indices(exp_grids[i].n)))
                        mm = mask_points(m, pts, False).reshape(tuple(int(v) for v in exp_grids[i].n[::-1]))
                    else:
                        mm = mask_interp_axes(m, r.n, n_first, ac, clamped=(ac == r.ac))
                else:
                    mm = None  # start > 0: intermediate sizes unknown -> values of this level are not judged
                masks.append(mm)
            else:
                pm = cur_masks[i]
                if pm is None:
                    masks.append(None)
                    continue
                pg = cur_grids[i]
                changed = obs[i].n != pg.n
                rad = np.where(changed, rad1, 0)
                masks.append(mask_interp_axes(mask_erode(pm, rad), pg.n, obs[i].n, ac, True))
        K = max([K0] + [cond_K(o) for o in obs])
        for i in range(N):
            if masks[i] is None:
                out.undef = "pyramid:start>0:intermediate-sizes-not-observable"
                continue
            probs, me = value_problems(st, data[i], obs[i], masks[i], depth, K)
            out.maxerr = max(out.maxerr, me if me == me else 0.0)
            for kind, detail in probs:
                out.problems.append((kind, f"level {k} item {i}: {detail}"))
        if out.problems:
            return out
        prev_n = obs[0].n.copy()
        cur_masks, cur_grids = masks, exp_grids
        if k == a["level"]:
            chosen = (data, grids, exp_grids, masks, obs)
    if chosen is None:
        return out
    data, grids, exp_grids, masks, obs = chosen
    if any(m is None for m in masks):
        return out
    new = st.copy_meta()
    new.grids = []
    for i in range(N):
        g = exp_grids[i].copy()
        g.z = obs[i].z.copy()
        new.grids.append(g)
    new.masks = masks
    new.data, new.real_grids = data.copy(), grids
    out.new = new
    return out


# ---------------------------------------------------------------------------
# exploration
def valid_fraction(st: St) -> float:
    return min(float(m.mean()) for m in st.masks) if st.masks else 0.0


class Explorer:
    def __init__(self, acc: Acc, cfg):
        self.acc = acc
        self.cfg = cfg
        self.seen = {}

    def run(self, st: St, hist, plan):
        """plan = tuple of alphabet levels of the remaining steps, e.g. (1,) or (0, 0). A state already expanded
        with a plan that covers this one (same length or longer, levels >= element-wise) is not expanded again."""
        acc = self.acc
        key = state_key(st)
        acc.state(key)
        for prev in self.seen.get(key, ()):
            if len(prev) >= len(plan) and all(p >= q for p, q in zip(prev, plan)):
                acc.info["pruned_by_state_dedup"] = acc.info.get("pruned_by_state_dedup", 0) + 1
                return
        self.seen.setdefault(key, []).append(tuple(plan))
        if st.terminal or not plan:
            return
        for op in alphabet(st.D, st.cls, st.N, plan[0]):
            nxt = self.do(st, op, hist)
            if nxt is not None:
                self.run(nxt, hist + [op], tuple(plan[1:]))

    def do(self, st: St, op, hist):
        acc = self.acc
        depth = len(hist)
        r = step(st, op, depth)
        h2 = hist + [op]
        case = {"cfg": self.cfg, "ops": h2}
        if r.undef and not r.problems and r.new is None:
            acc.undef(r.undef)
            if not r.undef.startswith("not-enabled"):
                acc.trans()
            return None
        acc.trans()
        if r.undef:
            acc.undef(r.undef)
        if r.problems:
            for kind, detail in r.problems:
                acc.violation(f"C04/{op_sig(op)}/{kind_sig(st)}/{kind}", case, detail, size=len(h2))
            acc.outcome("problem", op_sig(op), kind_sig(st), r.problems[0][0])
            return None
        if r.new is None:
            return None
        new = r.new
        acc.trace("chain", depth=len(h2))
        k2 = state_key(new)
        acc.outcome(k2)
        vf = valid_fraction(new)
        acc.info["chains_total"] = acc.info.get("chains_total", 0) + 1
        if vf >= 0.25:
            acc.info["chains_valid_ge_25pct"] = acc.info.get("chains_valid_ge_25pct", 0) + 1
            if k2 != state_key(st):
                acc.nontriv(k2)
        elif vf == 0.0 and not new.terminal:
            acc.info["chains_valid_empty"] = acc.info.get("chains_valid_empty", 0) + 1
        if len(h2) >= 2 and len(acc.samples) < 2:
            acc.sample({"initial": {"kind": self.cfg["kind"], "grid": self.cfg["grid"]}, "ops": h2,
                        "result_grids": [g.describe() for g in new.grids], "valid_fraction": vf})
        return new


# ---------------------------------------------------------------------------
# histories on ONE live object:  op1 (twice) -> grid_(g') + in-place re-fill -> op2 (twice)
RECV_GRIDS = ["shift", "aniso", "otherac"]


def recv_grid(r: RefGrid, gname: str) -> RefGrid:
    """g' of grid_(): same shape, other geometry."""
    D = r.D
    g = r.copy()
    g.z = r.n.copy()
    if gname == "shift":
        g.c = r.c + r.R @ (r.s * np.array([1.37, -0.71, 0.45][:D]))
    elif gname == "aniso":
        Q = rg.rot2(30.0) if D == 2 else rg.rot3(0.3, 0.2, -0.4)
        g.R = Q @ r.R
        g.s = r.s * np.array([1.5, 0.6, 1.2][:D])
        g.c = r.c + np.array([2.5, -1.25, 0.75][:D])
    elif gname == "otherac":
        g.ac = not r.ac
    else:
        raise KeyError(gname)
    return g


def recv_ops(D, cls, N, tier):
    """(first operations, second operations) of the receiver histories."""
    lvl0 = alphabet(D, cls, N, 0)
    if tier == "quick":
        seen, first = set(), []
        for op in lvl0:
            if op[0] not in seen:
                seen.add(op[0])
                first.append(op)
        return first, lvl0
    return lvl0, lvl0


def _same_result(a, b, st) -> bool:
    if isinstance(a, dict) or isinstance(b, dict):
        if not (isinstance(a, dict) and isinstance(b, dict)) or sorted(a) != sorted(b):
            return False
        return all(_same_result(a[k], b[k], st) for k in a)
    return receiver_fingerprint(a) == receiver_fingerprint(b)


# in-place changes of live Grid objects -------------------------------------------------------------------------
# (grid name g', way): g' is reached either by replacing the grid(s) (grid_) or by in-place setters of the SAME Grid objects
MID_FORMS = [
    ("shift", "grid_"), ("aniso", "grid_"), ("otherac", "grid_"),
    ("shift", "center_"), ("shift", "origin_"), ("aniso", "spacing_+direction_+center_"), ("otherac", "align_corners_"),
]


def edit_grid_inplace(g, new: RefGrid, via: str):
    """Bring the live Grid object g to the geometry `new` with in-place setters only."""
    if via == "center_":
        g.center_(tuple(new.c.tolist()))
    elif via == "origin_":
        g.origin_(tuple(new.origin.tolist()))
    elif via == "spacing_+direction_+center_":
        g.spacing_(tuple(new.s.tolist()))
        g.direction_(new.R.tolist())
        g.center_(tuple(new.c.tolist()))
    elif via == "align_corners_":
        g.align_corners_(new.ac)
    else:
        raise KeyError(via)


def own_grids(obj):
    from deepali.data import ImageBatch

    return list(obj.grids()) if isinstance(obj, ImageBatch) else [obj.grid()]


def edited_state(st0: St, gname: str) -> St:
    """Reference state after the object's grids were changed to g' and its data re-filled with the ramps of g'."""
    st1 = st0.copy_meta()
    st1.grids = [recv_grid(r, gname) for r in st0.grids]
    st1.masks = [m.copy() for m in st0.masks]
    shape = st0.data.shape[2:]
    idx = ri.grid_indices(st1.grids[0].n)
    st1.data = np.stack([expected_channels(st1, g, idx).reshape((-1,) + shape) for g in st1.grids]).astype(np.float32)
    st1.real_grids = None
    return st1


def apply_mid(obj, st0: St, gname: str, via: str):
    """Change the live object in place: grids -> g' (grid_ or setters on its own Grid objects), data re-filled in place.
    Returns (problems, st1)."""
    st1 = edited_state(st0, gname)
    single = st0.cls in ("Image", "FlowField")
    if via == "grid_":
        st1.real_grids = [real_grid_from_ref(g) for g in st1.grids]
        sg, rgd = guarded(lambda: obj.grid_(st1.real_grids[0] if single else list(st1.real_grids)))
    else:
        live = own_grids(obj)
        st1.real_grids = live

        def _edit():
            for g, new in zip(live, st1.grids):
                edit_grid_inplace(g, new, via)

        sg, rgd = guarded(_edit)
    if sg == "raises":
        return [(f"{via}/" + raise_tag(rgd), exc_text(rgd))], None
    with torch.no_grad():
        obj.tensor().copy_(torch.from_numpy(st1.data[0] if single else st1.data))
    _, d_obs, g_obs, _ = observe(obj, st1)
    if d_obs is None or d_obs.tobytes() != st1.data.tobytes() or len(g_obs) != st1.N or any(a is not b for a, b in zip(g_obs, st1.real_grids)):
        return [(f"{via}/not-applied", "after the in-place change the object does not report the new grid objects / data")], None
    for i, (g, new) in enumerate(zip(g_obs, st1.grids)):
        probs = grid_problems(RefGrid.from_real(g), new, 0)
        if probs:
            return [(f"{via}/{probs[0][0]}", f"item {i}: grid after the setter(s): {probs[0][1]}")], None
    return [], st1


def _repeat_ok(obj, st, op, new) -> bool:
    s2, r2 = guarded(impl_call, obj, st, op)
    if s2 == "raises":
        return False
    pick = r2[op[1]["level"]] if isinstance(r2, dict) and op[1].get("level") in r2 else r2
    if isinstance(pick, dict):
        return True  # level not returned: nothing to compare
    _, d2, g2, _ = observe(pick, st)
    return d2 is not None and d2.tobytes() == new.data.tobytes() and len(g2) == len(new.real_grids) and all(
        receiver_fingerprint_grid(a) == receiver_fingerprint_grid(b) for a, b in zip(g2, new.real_grids))


def receiver_history(cfg, op1, gname, op2, via: str = "grid_"):
    """op1 (twice) -> in-place change to g' -> op2 (twice) on ONE live object.
    Returns (problems [(kind, detail)], undef reason or None, new state or None, number of real calls)."""
    st0 = build(cfg)
    if ref_step(st0, op1) is None:
        return [], "receiver:first-op-not-enabled", None, 0
    obj = make_real(st0)
    fp0 = receiver_fingerprint(obj)
    s1, r1 = guarded(impl_call, obj, st0, op1)
    if s1 == "raises":
        return [], "receiver:first-op-raises(reported by the chains)", None, 1
    if receiver_fingerprint(obj) != fp0:
        return [("first-op/receiver-mutated", f"{op_sig(op1)} changed the object it was called on")], None, None, 1
    s1b, r1b = guarded(impl_call, obj, st0, op1)
    if s1b == "raises" or not _same_result(r1, r1b, st0):
        return [("first-op/repeat-call", f"{op_sig(op1)} called twice on the same object gives different results")], None, None, 2
    probs, st1 = apply_mid(obj, st0, gname, via)
    if probs:
        return probs, None, None, 3
    r = step(st1, op2, 2, obj=obj)
    calls = 4
    if not r.problems and r.new is not None:
        calls += 1
        if not _repeat_ok(obj, st1, op2, r.new):
            r.problems.append(("repeat-call", f"{op_sig(op2)} called twice on the same object gives different results"))
    return r.problems, r.undef, r.new, calls


def receiver_fingerprint_grid(g) -> bytes:
    return g._size.numpy().tobytes() + g._center.numpy().tobytes() + g._spacing.numpy().tobytes() + g._direction.numpy().tobytes() + (b"T" if g._align_corners else b"F")


def recv_sig(st_kind: str, op1, gname, op2, kind, via: str = "grid_") -> str:
    mid = f"grid_({gname})" if via == "grid_" else f"{via}({gname})"
    return f"C04/receiver/{op_sig(op1)}>{mid}>{op_sig(op2)}/{st_kind}/{kind}"


def _record_history(acc: Acc, tag, case, sigf, probs, undef, new, calls, sample_desc):
    acc.trans(calls)
    if undef:
        acc.undef(undef)
    for kind, detail in probs:
        acc.violation(sigf(kind), case, detail, size=3)
    if probs:
        acc.outcome(tag + "-problem", repr(sample_desc), probs[0][0])
        return
    if new is None:
        return
    acc.trace(tag, depth=3)
    k2 = state_key(new)
    acc.state(k2)
    acc.outcome(tag, k2)
    if valid_fraction(new) >= 0.25:
        acc.nontriv(tag, repr(sample_desc), k2)
    if len(acc.samples) < 1:
        acc.sample({"initial": {"kind": case["cfg"]["kind"], "grid": case["cfg"]["grid"]}, "history_on_one_object": sample_desc,
                    "result_grids": [g.describe() for g in new.grids]})


def run_receiver_shard(acc: Acc, cfg, tier, mid):
    gname, via = mid
    st0 = build(cfg)
    ks = kind_sig(st0)
    first, second = recv_ops(st0.D, st0.cls, st0.N, tier)
    for op1 in first:
        for op2 in second:
            probs, undef, new, calls = receiver_history(cfg, op1, gname, op2, via)
            case = {"cfg": cfg, "recv": {"op1": op1, "grid": gname, "via": via, "op2": op2}}
            _record_history(acc, "receiver", case, lambda kind: recv_sig(ks, op1, gname, op2, kind, via), probs, undef, new, calls,
                            [op1, [via, gname], op2])


# the SAME target Grid object sampled twice with an in-place change in between ---------------------------------------
LIVE_TARGETS = ["shift", "rot", "size"]
LIVE_MIDS = (
    [("target", v) for v in ("center_", "origin_", "spacing_", "direction_", "align_corners_")]
    + [("own", g, v) for g, v in MID_FORMS]
    + [("none",)]
)


def edit_target(t: RefGrid, g, via: str) -> RefGrid:
    """In-place setter on the live target grid object g (reference t); returns the new reference."""
    D = t.D
    new = t.copy()
    if via == "center_":
        new.c = t.c + t.R @ (t.s * np.array([0.8, -1.3, 0.6][:D]))
        g.center_(tuple(new.c.tolist()))
    elif via == "origin_":
        new.c = t.c + t.R @ (t.s * np.array([-0.6, 0.9, 1.2][:D]))
        g.origin_(tuple(new.origin.tolist()))
    elif via == "spacing_":
        new.s = t.s * np.array([0.8, 1.15, 0.9][:D])
        g.spacing_(tuple(new.s.tolist()))
    elif via == "direction_":
        Q = rg.rot2(-17.0) if D == 2 else rg.rot3(-0.2, 0.15, 0.25)
        new.R = Q @ t.R
        g.direction_(new.R.tolist())
    elif via == "align_corners_":
        new.ac = not t.ac
        g.align_corners_(new.ac)
    else:
        raise KeyError(via)
    return new


def live_history(cfg, tname, per_item: bool, mid, extra=None):
    """sample(T) -> in-place change (of T, or of the object's own grids) -> sample(T) with the same objects."""
    st0 = build(cfg)
    n_t = st0.N if per_item else 1
    refs = [target_ref(st0, i, tname) for i in range(n_t)]
    if not all(_sizes_ok(t.n) for t in refs):
        return [], "live:target-not-in-domain", None, 0
    reals = [real_grid_from_ref(t) for t in refs]
    st0.live = (refs, reals)
    op = ("sample", dict({"target": "live"}, **({"per_item": True} if per_item else {}), **(extra or {})))
    obj = make_real(st0)
    r1 = step(st0, op, 0, obj=obj)
    if r1.problems or r1.new is None:
        return [("first-sample/" + k, d) for k, d in r1.problems], r1.undef, None, 1
    if mid[0] == "target":
        st1 = st0.copy_meta()
        st1.grids, st1.masks, st1.data, st1.real_grids = st0.grids, st0.masks, st0.data, st0.real_grids
        sg, val = guarded(lambda: [edit_target(t, g, mid[1]) for t, g in zip(refs, reals)])
        if sg == "raises":
            return [(f"target.{mid[1]}/" + raise_tag(val), exc_text(val))], None, None, 2
        st1.live = (val, reals)
    elif mid[0] == "own":
        probs, st1 = apply_mid(obj, st0, mid[1], mid[2])
        if probs:
            return probs, None, None, 2
        st1.live = (refs, reals)
    else:
        st1 = st0
    r = step(st1, op, 2, obj=obj)
    calls = 3
    if not r.problems and r.new is not None and not r.new.terminal:
        calls += 1
        if not _repeat_ok(obj, st1, op, r.new):
            r.problems.append(("repeat-call", "sample(T) called twice on the same objects gives different results"))
    return r.problems, r.undef, r.new, calls


def live_sig(ks, tname, per_item, mid, extra, kind) -> str:
    m = {"target": lambda: f"T.{mid[1]}", "own": lambda: (f"grid_({mid[1]})" if mid[2] == "grid_" else f"own.{mid[2]}({mid[1]})"), "none": lambda: "nothing"}[mid[0]]()
    o = op_sig(("sample", dict({"target": tname}, **({"per_item": True} if per_item else {}), **(extra or {}))))
    return f"C04/same-target/{o}>{m}>again/{ks}/{kind}"


def run_live_shard(acc: Acc, cfg, tier):
    st0 = build(cfg)
    ks = kind_sig(st0)
    extras = [None, {"padding": "border"}, {"mode": "nearest"}] if tier != "quick" else [None, {"padding": "border"}]
    for tname in LIVE_TARGETS:
        for per_item in ([False, True] if st0.N == 2 else [False]):
            for mid in LIVE_MIDS:
                for extra in extras:
                    probs, undef, new, calls = live_history(cfg, tname, per_item, mid, extra)
                    case = {"cfg": cfg, "live": {"target": tname, "per_item": per_item, "mid": list(mid), "extra": extra}}
                    _record_history(acc, "same-target", case, lambda kind: live_sig(ks, tname, per_item, mid, extra, kind), probs, undef, new,
                                    calls, [["sample", tname], list(mid), ["sample", tname]])


# copies: clone() / torch.clone / copy.copy / copy.deepcopy, then in-place edits of one object, evaluation of the other ----
COPY_FORMS = ["clone()", "torch.clone", "copy.deepcopy", "copy.copy"]
COPY_EDITS = [("shift", "origin_"), ("aniso", "spacing_+direction_+center_"), ("otherac", "align_corners_"), ("aniso", "grid_")]


def make_copy(obj, form: str):
    import copy as _copy

    if form == "clone()":
        return obj.clone()
    if form == "torch.clone":
        return torch.clone(obj)
    if form == "copy.deepcopy":
        return _copy.deepcopy(obj)
    if form == "copy.copy":
        return _copy.copy(obj)
    raise KeyError(form)


def copy_history(cfg, form, edited: str, edit, op2):
    """c = copy(obj); in-place edit of obj (or of c); the OTHER object must be untouched and every operation on it in
    lock-step with its own (old) grid. copy.copy (shallow): either fully independent or fully shared, else not judged."""
    gname, via = edit
    st0 = build(cfg)
    if ref_step(st0, op2) is None:
        return [], "copy:op-not-enabled", None, 0
    obj = make_real(st0)
    sc, cp = guarded(make_copy, obj, form)
    if sc == "raises":
        return [("copy/" + raise_tag(cp), exc_text(cp))], None, None, 1
    cname, d_c, g_c, ax_c = observe(cp, st0)
    if cname != st0.cls or (st0.axes is not None and ax_c != st0.axes):
        return [], "copy:type-or-axes-not-preserved(not promised)", None, 1
    if d_c is None or d_c.tobytes() != st0.data.tobytes() or len(g_c) != st0.N:
        return [("copy/not-equal", "the copy does not carry the data / one grid per item of the original")], None, None, 1
    for i, g in enumerate(g_c):
        probs = grid_problems(RefGrid.from_real(g), st0.grids[i], 0)
        if probs:
            return [("copy/" + probs[0][0], f"item {i}: {probs[0][1]}")], None, None, 1
    A, B = (obj, cp) if edited == "orig" else (cp, obj)
    fpB = receiver_fingerprint(B)
    probs, st1 = apply_mid(A, st0, gname, via)
    if probs:
        return [("edit/" + k, d) for k, d in probs], None, None, 2
    unchanged = receiver_fingerprint(B) == fpB
    stB = st0.copy_meta()
    if unchanged:
        stB.grids, stB.masks, stB.data = st0.grids, st0.masks, st0.data
    elif form == "copy.copy":
        _, dB, gB, _ = observe(B, st0)
        shared = dB is not None and dB.tobytes() == st1.data.tobytes() and all(
            not grid_problems(RefGrid.from_real(g), st1.grids[i], 0) for i, g in enumerate(gB))
        if not shared:
            return [], "copy.copy:partially-shared-after-edit(not promised)", None, 2
        stB.grids, stB.masks, stB.data = st1.grids, st1.masks, st1.data
    else:
        what = "copy" if edited == "orig" else "original"
        return [("follows-edit", f"in-place edit of the {'original' if edited == 'orig' else 'copy'} ({via}) changed the {what} (data bits / grids)")], None, None, 2
    stB.real_grids = own_grids(B)
    r = step(stB, op2, 2, obj=B)
    return r.problems, r.undef, r.new, 3


def copy_sig(ks, form, edited, edit, op2, kind) -> str:
    return f"C04/copy/{form}>edit-{edited}:{edit[1]}({edit[0]})>{op_sig(op2)}/{ks}/{kind}"


def run_copy_shard(acc: Acc, cfg, tier, form):
    st0 = build(cfg)
    ks = kind_sig(st0)
    ops2 = alphabet(st0.D, st0.cls, st0.N, 0)
    for edited in ("orig", "copy"):
        for edit in COPY_EDITS:
            for op2 in ops2:
                probs, undef, new, calls = copy_history(cfg, form, edited, edit, op2)
                case = {"cfg": cfg, "copy": {"form": form, "edited": edited, "edit": list(edit), "op2": op2}}
                _record_history(acc, "copy", case, lambda kind: copy_sig(ks, form, edited, edit, op2, kind), probs, undef, new, calls,
                                [[form], ["edit", edited, list(edit)], op2])


# memory layout of the data wrapped by the object the chain starts from ---------------------------------------------------
LAYOUT_FORMS = ["transposed", "sliced", "expanded"]


def _live_chain(st0: St, ops, layout):
    """Apply ops one after the other to the LIVE results, starting from an object whose data has the given layout.
    Returns (results per step as (class name, data, grid fingerprints, axes) or the exception, input tensor)."""
    keep = []
    obj = make_real(st0, layout, keep)
    t_in = keep[0]
    b = t_in._base if t_in._base is not None else t_in
    fp = (t_in._version, b._version, t_in.detach().contiguous().numpy().tobytes(), b.detach().contiguous().numpy().tobytes())
    outs = []
    cur, cur_st = obj, st0
    for op in ops:
        stt, res = guarded(impl_call, cur, cur_st, op)
        if stt == "raises":
            outs.append(res)
            break
        if isinstance(res, dict):
            lv = op[1].get("level")
            if lv not in res:
                outs.append(KeyError("level"))
                break
            res = res[lv]
        cname, data, grids, axes = observe(res, st0)
        if data is None:
            outs.append(TypeError(cname))
            break
        outs.append((cname, data.copy(), [receiver_fingerprint_grid(g) for g in grids], axes))
        # state stub for the next call (impl_call only needs class / D / N / the live grids of the receiver)
        nxt = st0.copy_meta()
        nxt.N = data.shape[0]
        nxt.grids = [RefGrid.from_real(g) for g in grids]
        nxt.real_grids = grids
        nxt.data, nxt.masks = data, None
        cur, cur_st = res, nxt
    b2 = t_in._base if t_in._base is not None else t_in
    fp2 = (t_in._version, b2._version, t_in.detach().contiguous().numpy().tobytes(), b2.detach().contiguous().numpy().tobytes())
    return outs, fp2 != fp


def layout_chain(cfg, ops, form):
    """Chain on an object with non-contiguous data vs the same chain on the contiguous form.
    Returns (problems, status) with status in {'n/a', 'ok', 'bitwise'}."""
    st0 = build(cfg)
    ref_form = "repeat" if form == "expanded" else "contig"
    try:
        ref, _ = _live_chain(st0, ops, ref_form)
        got, mutated = _live_chain(build(cfg), ops, form)
    except LayoutNotApplicable:
        return [], "n/a"
    if any(isinstance(r, BaseException) for r in ref) or len(ref) < len(ops):
        return [], "n/a"  # the contiguous chain itself raises / is not enabled: reported (or excluded) by the chains
    probs = []
    if mutated:
        probs.append(("operand-mutated", "the data tensor handed to the constructor (or its base buffer) was modified (bits or _version)"))
    bit = True
    for k, (r, g) in enumerate(zip(ref, got)):
        where = f"step {k + 1} ({op_sig(ops[k])})"
        if isinstance(g, BaseException):
            probs.append((raise_tag(g), f"{where}: " + exc_text(g)))
            break
        if g[0] != r[0] or g[3] != r[3]:
            probs.append(("type", f"{where}: {g[0]}/{g[3]} vs contiguous {r[0]}/{r[3]}"))
            break
        if g[1].shape != r[1].shape:
            probs.append(("shape", f"{where}: {g[1].shape} vs contiguous {r[1].shape}"))
            break
        if g[2] != r[2]:
            probs.append(("grid", f"{where}: returned grids differ from those of the contiguous form"))
            break
        a, b = g[1].astype(np.float64), r[1].astype(np.float64)
        C = b.shape[1]
        scale = np.abs(b).reshape(b.shape[0], C, -1).max(axis=2).max(axis=0)  # per channel
        tol = CTOL * EPS32 * (k + 1) * np.maximum(scale, 1e-30)
        d = np.abs(a - b).reshape(b.shape[0], C, -1).max(axis=2).max(axis=0)
        if not np.all(d <= tol):
            c = int(np.argmax(d - tol))
            probs.append(("value", f"{where}: channel {c} differs from the contiguous form by {d[c]:.4g} > tol {tol[c]:.2e}"))
            break
        bit &= g[1].tobytes() == r[1].tobytes()
    if len(got) < len(ref) and not probs:
        probs.append(("shape", "chain ended early"))
    return probs, ("bitwise" if bit else "ok")


def layout_sig(ks, ops, form, kind) -> str:
    return f"C04/layout/{'>'.join(op_sig(o) for o in ops)}/{ks}/layout={form}/{kind}"


def run_layout_shard(acc: Acc, cfg, tier, form):
    st0 = build(cfg)
    ks = kind_sig(st0)
    first, second = recv_ops(st0.D, st0.cls, st0.N, "quick")  # second = reduced alphabet, first = one form per mechanism
    chains = [[op] for op in second] + [[op1, op2] for op1 in second for op2 in first]
    for ops in chains:
        probs, status = layout_chain(cfg, ops, form)
        if status == "n/a":
            acc.undef("layout:contiguous-chain-not-enabled-or-form-not-applicable")
            continue
        acc.trans(2 * len(ops))
        acc.trace("layout", depth=len(ops))
        acc.info["layout_bit_identical"] = acc.info.get("layout_bit_identical", 0) + (1 if status == "bitwise" else 0)
        case = {"cfg": cfg, "layout": {"ops": ops, "form": form}}
        for kind, detail in probs:
            acc.violation(layout_sig(ks, ops, form, kind), case, detail, size=len(ops))
        acc.outcome("layout", ks, repr(cfg["grid"]["size"]), form, repr(ops), probs[0][0] if probs else status)
        if not probs:
            acc.nontriv("layout", ks, repr(cfg["grid"]["size"]), form, repr(ops))


def _groups(n, per):
    return [list(range(i, min(i + per, n))) for i in range(0, n, per)]


def shards(tier: str, seed: int):
    out = []
    cfgs = configs(tier, seed)
    per = 1 if tier == "quick" else 4
    for i, cfg in enumerate(cfgs):
        cls, N, _ = kind_parts(cfg["kind"])
        nops = len(alphabet(len(cfg["grid"]["size"]), cls, N))
        for grp in _groups(nops, per):
            out.append({"tier": tier, "seed": seed, "cfg": i, "first": grp})
    for i, cfg in enumerate(cfgs):
        for mid in MID_FORMS:
            out.append({"tier": tier, "seed": seed, "cfg": i, "recv": list(mid)})
        out.append({"tier": tier, "seed": seed, "cfg": i, "live": True})
        for form in COPY_FORMS:
            out.append({"tier": tier, "seed": seed, "cfg": i, "copy": form})
    for j in range(len(layout_cfgs(seed))):
        for form in LAYOUT_FORMS:
            out.append({"tier": tier, "seed": seed, "lcfg": j, "layout": form})
    return out


def layout_cfgs(seed):
    """Configurations of the layout sub-check (the same in both tiers): 2-D ImageBatch N=2, 2-D Image, 2-D FlowFields
    N=2 in world axes, 3-D ImageBatch N=2."""
    specs = grid_specs("quick", seed)
    return [{"grid": specs[i], "kind": k, "seed": seed, "plans": []} for i, k in ((0, "Batch2"), (1, "Image"), (2, "Flow2:world"), (6, "Batch2"))]


def run_shard(shard) -> Acc:
    acc = Acc()
    tier = shard["tier"]
    if "layout" in shard:
        run_layout_shard(acc, layout_cfgs(shard["seed"])[shard["lcfg"]], tier, shard["layout"])
        return acc
    cfg = configs(tier, shard["seed"])[shard["cfg"]]
    if "recv" in shard:
        run_receiver_shard(acc, cfg, tier, tuple(shard["recv"]))
        return acc
    if "live" in shard:
        run_live_shard(acc, cfg, tier)
        return acc
    if "copy" in shard:
        run_copy_shard(acc, cfg, tier, shard["copy"])
        return acc
    st0 = build(cfg)
    ex = Explorer(acc, cfg)
    acc.state(state_key(st0))
    # the initial state must satisfy the invariant itself (harness self-check, never a violation of deepali)
    r0 = [RefGrid.from_real(g) for g in st0.real_grids]
    for i in range(st0.N):
        probs, _ = value_problems(st0, st0.data[i], r0[i], st0.masks[i], 0, cond_K(r0[i]))
        if probs:
            raise AssertionError(f"harness: initial ramps do not match the real grid: {probs}")
    ops = alphabet(st0.D, st0.cls, st0.N)
    for j in shard["first"]:
        op = ops[j]
        nxt = ex.do(st0, op, [])
        if nxt is None:
            continue
        for plan in sorted(cfg["plans"], key=len, reverse=True):
            ex.run(nxt, [op], tuple(plan))
    return acc


def replay(case):
    """Plain re-execution of a recorded chain; returns [(sig, detail)]."""
    cfg = case["cfg"]
    if "recv" in case:
        h = case["recv"]
        op1, op2 = (h["op1"][0], h["op1"][1]), (h["op2"][0], h["op2"][1])
        via = h.get("via", "grid_")
        probs, _, _, _ = receiver_history(cfg, op1, h["grid"], op2, via)
        ks = kind_sig(build(cfg))
        return [(recv_sig(ks, op1, h["grid"], op2, kind, via), detail) for kind, detail in probs]
    if "live" in case:
        h = case["live"]
        mid = tuple(h["mid"])
        probs, _, _, _ = live_history(cfg, h["target"], h["per_item"], mid, h["extra"])
        ks = kind_sig(build(cfg))
        return [(live_sig(ks, h["target"], h["per_item"], mid, h["extra"], kind), detail) for kind, detail in probs]
    if "layout" in case:
        h = case["layout"]
        ops = [(o[0], o[1]) for o in h["ops"]]
        probs, _ = layout_chain(cfg, ops, h["form"])
        ks = kind_sig(build(cfg))
        return [(layout_sig(ks, ops, h["form"], kind), detail) for kind, detail in probs]
    if "copy" in case:
        h = case["copy"]
        op2 = (h["op2"][0], h["op2"][1])
        edit = tuple(h["edit"])
        probs, _, _, _ = copy_history(cfg, h["form"], h["edited"], edit, op2)
        ks = kind_sig(build(cfg))
        return [(copy_sig(ks, h["form"], h["edited"], edit, op2, kind), detail) for kind, detail in probs]
    ops = [(o[0], o[1]) for o in case["ops"]]
    st = build(cfg)
    out = []
    for depth, op in enumerate(ops):
        r = step(st, op, depth)
        for kind, detail in r.problems:
            out.append((f"C04/{op_sig(op)}/{kind_sig(st)}/{kind}", detail))
        if r.problems or r.new is None:
            break
        st = r.new
    return out
